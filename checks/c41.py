"""C41 - exposed values respect cooldown and always end up on the bus.

A real `ExposeSensor` (cooldown in {0,1,5} s, periodic_send none / shorter than / equal to / longer than the cooldown, value type
binary / 2-byte float / string) lives in a real, connected XKNX (telegram queue with
rate_limit in {0,5,20}, task registry, recording stub interface) on the virtual-time
loop. Histories of `set(value, skip_unchanged)`, *bursts* of 2-4 `set()` calls made
back-to-back without yielding to the loop, incoming GroupValueRead, `initialize_value`
and time advances (gaps around the cooldown / periodic thresholds and below 1/rate; all
gaps dyadic) are generated as data. The oracle reads only the stub's telegram log and
the history; a history is flattened into *events* (one per set() call, read, init,
advance) and 'most recent value' is defined over all set()/init events:

 S1 (rate limit 0) consecutive GroupValueWrite telegrams are >= cooldown apart (a pair
    containing a write exactly one periodic interval after the previous outgoing
    telegram is exempt: periodic sends are additional telegrams);
 S2 for every set() not followed by another update within the window: at
    set-time + cooldown (+ queue hold time when a rate limit is configured) the value
    last on the bus (last outgoing write / response, or a later initialize_value, which
    counts as sent) carries that value;
 S3 the i-th GroupValueRead that finds a value is answered by the i-th
    GroupValueResponse, which carries the value most recent at the read (rate limit 0:
    in the same instant);
 S4 (skip_unchanged) is S2/S3 with 'most recent' defined over *all* set() calls: a legal
    skip never changes the most recent payload, an illegal one leaves a stale value;
 S5 the payloads on the bus follow the history: every telegram carries a value that was
    the most recent one at some event not older than the event of the previous telegram
    and not newer than its emission (rate limit 0: not older than the op before the one
    during which it is emitted).

Expected payloads come from fixed tables (KNX DPT 1 / 9.001 / 16.000 encodings written
down by hand), not from the encoder under test.
"""

from __future__ import annotations

import asyncio
import itertools
import os

from hypothesis import strategies as st

from vk.core import HarnessError, cpu_count, exc_site
from vk.engine import hyp_search, parallel
from vk.vloop import BudgetExceeded, Deadlock, run_case
from vk.xharness import XH

PROPERTY = "C41"
LEVEL = "exploration"
TECHNIQUE = "model-based history testing (bounded exhaustive op sequences + Hypothesis histories incl. back-to-back set() bursts and rate-limited queues) of a real ExposeSensor in a real XKNX on a virtual-time loop; oracle over the recorded outgoing telegram log"
RULE = (
    "case = (cooldown in {0,1,5} s, periodic_send none / shorter than / equal to / longer than the cooldown ({0,7}, {0,0.5,1,7}, {0,2,5,7} s), XKNX rate_limit in {0,5,20}/s, value type binary | temperature | string, history over {set(value, skip_unchanged), burst of 2-4 set() calls without yielding to the loop, GroupValueRead from the bus, initialize_value(value), advance by a gap around the thresholds or below 1/rate}); "
    "enumerated: all op sequences up to length 3 (quick) / 4 (thorough) over {set A, set B, set A/B with skip_unchanged, read, advance cooldown/2, cooldown, cooldown+1/8} x cooldown {1,5} x periodic {0,7} and x (cooldown, periodic) in {(5,2),(5,5),(1,0.5),(1,1)}; "
    "cooldown 0: all sequences up to length 2 (quick) / 3 (thorough, binary values) over single sets, read, an advance and all 2-set bursts over {A,B} x skip flag plus the A,B,A / B,A,B bursts; rate_limit {5,20} x cooldown 0: all sequences up to length 3 (4) over sets, read, advance 1/64 s, advance 1 s; longer histories (<= 14 ops) sampled; "
    "non-trivial = at least two updates of which one falls inside a running cooldown (or cooldown 0), or a read after an update, or an equal-payload set with skip_unchanged; distinct by case"
)
LEVEL_TEXT = "Generated update/read/initialize histories (single and back-to-back updates, with and without an outgoing rate limit) with timings around the cooldown and periodic thresholds run against the real ExposeSensor in virtual time; the four clauses of the statement are decided from the outgoing telegram log of a recording interface."
LEVEL_NOTE = "Virtual time, single-threaded asyncio, always connected, stub interface that confirms every frame; payload expectations from hand-written DPT tables; histories bounded (<= 14 ops; exhaustive up to 2-4 depending on the alphabet)."
ASSUMPTIONS = [
    "all generated gaps are dyadic fractions of a second; slack on every deadline 1e-6 s (the rate limiter sleeps 1/rate, which is not dyadic)",
    "'value telegrams caused by updates' = GroupValueWrite telegrams; a write exactly periodic_send after the previous outgoing telegram is taken as a periodic send and a pair containing one is not held against the cooldown clause; responses to reads are not subject to it",
    "periodic re-send as on the unchanged tree: periodic_send after the last outgoing telegram a tick sends the latest set value (never an older one - judged by S5) as a GroupValueWrite and restarts the cooldown; every outgoing telegram restarts the periodic timer. With periodic_send <= cooldown a pending value therefore reaches the bus with the next periodic tick, before the cooldown would end; such a write is a 'periodic send' for the cooldown-distance clause, while S2 (latest set value last on the bus at update + cooldown) and S5 apply unchanged",
    "with an XKNX rate limit the outgoing queue holds telegrams back: the cooldown-distance clause is not asserted there, 'within one cooldown' becomes 'within one cooldown + (number of telegrams the history can produce + 2)/rate', a read answer may be late but must be the next response and carry the value most recent at the read; initialize_value is not generated together with a rate limit",
    "'value last on the bus' = payload of the last outgoing GroupValueWrite/GroupValueResponse; initialize_value() counts as sent (its documented contract) and as the most recent value; values are compared by encoded payload (two values with equal encoding are 'unchanged')",
    "a read before any value exists needs no answer; reads arrive through the cEMI receive path; the connection stays up (a stub interface cannot refuse frames), no foreign writes to the exposed address",
    "S5 (payloads on the bus follow the order of the updates; nothing older than what was already sent, unless set again) is implied by 'answered with the most recent value' / 'always end up on the bus' and reported in its own bucket",
]

GA = "1/2/3"
SLACK = 1e-6
VALUES = {
    "binary": [(False, 0), (True, 1)],
    "temperature": [(21.0, [0x0C, 0x1A]), (10.0, [0x03, 0xE8]), (22.0, [0x0C, 0x4C]), (3.11, [0x01, 0x37]), (3.111, [0x01, 0x37])],
    "string": [("", [0] * 14), ("a", [0x61] + [0] * 13), ("KNX is OK", [0x4B, 0x4E, 0x58, 0x20, 0x69, 0x73, 0x20, 0x4F, 0x4B, 0, 0, 0, 0, 0])],
}
SETTLE = 14
DRAIN_MAX = 400


def _n_out(case) -> int:
    """Upper bound of telegrams the history itself can queue (sets + reads)."""
    n = 0
    for op in case["ops"]:
        if op[0] == "burst":
            n += len(op[1])
        elif op[0] in ("set", "read"):
            n += 1
    return n


def hold_s(case) -> float:
    """Longest time the rate limiter can hold a telegram of this history back."""
    rate = case.get("rate", 0)
    return (_n_out(case) + 2) / rate if rate else 0.0


def tail_s(case) -> float:
    # long enough for two cooldown periods (starvation of a pending value shows) and a periodic tick
    return 2 * case["cooldown"] + case["periodic"] + 1.0 + 2 * hold_s(case)


def _all_ops(case):
    return list(case["ops"]) + [["adv", tail_s(case)]]


# --------------------------------------------------------------------------- execution


def execute(case):
    from xknx.devices import ExposeSensor
    from xknx.telegram import GroupAddress, Telegram
    from xknx.telegram.apci import GroupValueRead

    obs = {"log": [], "op_exc": [], "slices": []}
    vals = VALUES[case["vtype"]]
    rate = case.get("rate", 0)

    async def scenario(loop):
        h = await XH.create(loop, rate_limit=rate)
        h.connect()
        sensor = ExposeSensor(
            h.xknx,
            "dut",
            group_address=GA,
            value_type=case["vtype"],
            cooldown=case["cooldown"],
            periodic_send=case["periodic"],
        )
        h.xknx.devices.async_add(sensor)
        tq = h.xknx.telegram_queue

        def drained() -> bool:
            return h.xknx.telegrams.empty() and tq.outgoing_queue.empty() and not h.stub.inflight

        now = 0.0
        for k, op in enumerate(_all_ops(case)):
            try:
                if op[0] == "set":
                    await sensor.set(vals[op[1]][0], skip_unchanged=bool(op[2]))
                elif op[0] == "burst":
                    # back-to-back updates: ExposeSensor.set() never yields to the loop
                    for vi, skip in op[1]:
                        await sensor.set(vals[vi][0], skip_unchanged=bool(skip))
                elif op[0] == "init":
                    sensor.initialize_value(vals[op[1]][0])
                elif op[0] == "read":
                    h.inject_ind(Telegram(destination_address=GroupAddress(GA), payload=GroupValueRead()))
                elif op[0] == "adv":
                    await asyncio.sleep(op[1])
                    now += op[1]
                    if abs(loop.time() - now) > 1e-9:
                        raise HarnessError(f"virtual clock {loop.time()} != {now}")
            except HarnessError:
                raise
            except Exception as e:  # noqa: BLE001
                obs["op_exc"].append((k, exc_site(e), repr(e)))
            for _ in range(SETTLE):
                await asyncio.sleep(0)
            if not rate:
                # without a rate limit everything queued is on the bus within the same instant
                n = 0
                while not drained() and n < DRAIN_MAX:
                    await asyncio.sleep(0)
                    n += 1
                for _ in range(6):
                    await asyncio.sleep(0)
                if abs(loop.time() - now) > 1e-9:
                    raise HarnessError("settling advanced the virtual clock")
            obs["slices"].append(len(h.stub.sent))
        if not drained():
            raise HarnessError("telegram queue not drained at the end of the history")
        for r in h.stub.sent:
            tg = r["telegram"]
            p = getattr(tg, "payload", None)
            v = getattr(getattr(p, "value", None), "value", None)
            obs["log"].append((r["t"], type(p).__name__, list(v) if isinstance(v, tuple) else v, str(getattr(tg, "destination_address", None))))
        await h.close()

    _, loop = run_case(scenario, max_iters=300_000)
    obs["escaped"] = [(type(e["exception"]).__name__, e["repr"], e["message"]) for e in loop.escaped]
    return obs


# --------------------------------------------------------------------------- oracle


def flatten(case):
    """Events (op index, time, kind, value index, skip) and per-op first/last event index."""
    vals = VALUES[case["vtype"]]
    ops = _all_ops(case)
    ev = []
    first, last = [], []
    t = 0.0
    for k, op in enumerate(ops):
        first.append(len(ev))
        if op[0] == "burst":
            for vi, skip in op[1]:
                ev.append({"op": k, "t": t, "kind": "set", "vi": vi, "skip": bool(skip)})
        elif op[0] == "set":
            ev.append({"op": k, "t": t, "kind": "set", "vi": op[1], "skip": bool(op[2])})
        elif op[0] == "init":
            ev.append({"op": k, "t": t, "kind": "init", "vi": op[1], "skip": False})
        else:
            ev.append({"op": k, "t": t, "kind": op[0], "vi": None, "skip": False})
            if op[0] == "adv":
                t += op[1]
        last.append(len(ev) - 1)
    cur = None
    for e in ev:
        if e["kind"] in ("set", "init"):
            cur = vals[e["vi"]][1]
        e["recent"] = cur
    return ops, ev, first, last, t


def judge(ctx, case, obs) -> None:
    inp = case
    c = case["cooldown"]
    P = case["periodic"]
    rate = case.get("rate", 0)
    vals = VALUES[case["vtype"]]
    ops, ev, first, last, t_end = flatten(case)
    hold = hold_s(case)
    failed = set()

    def fail(bucket, detail):
        if bucket not in failed:
            failed.add(bucket)
            ctx.fail(bucket, inp, detail)

    for k, site, rep in obs["op_exc"]:
        fail(f"C41:op-raised:{ops[k][0]}:{site}", f"op {k} {ops[k]}: {rep}")
    for name, rep, msg in obs["escaped"]:
        fail(f"C41:escaped:{name}", f"{rep} {msg}")
    log = obs["log"]
    entry_op = []
    k = 0
    for i in range(len(log)):
        while i >= obs["slices"][k]:
            k += 1
        entry_op.append(k)
    for i, (tt, kind, val, dest) in enumerate(log):
        if kind not in ("GroupValueWrite", "GroupValueResponse") or dest != GA:
            fail("C41:unexpected-telegram", f"{kind} to {dest} at t={tt}")
    short = [(round(e[0], 4), e[1][10:], e[2]) for e in log][:14]
    # ---- S5: the payloads on the bus follow the order of the updates -------------
    j_prev = 0
    for i, (tt, kind, val, dest) in enumerate(log):
        k = entry_op[i]
        lo = max(j_prev, (max(first[k] - 1, 0) if not rate else 0))
        j = next((j for j in range(lo, last[k] + 1) if ev[j]["recent"] is not None and ev[j]["recent"] == val), None)
        if j is None:
            rel = "read-answer" if kind == "GroupValueResponse" else "write"
            newest = ev[last[k]]["recent"]
            fail(f"C41:stale-value-sent:{rel}", f"{kind} at t={tt} (during op {k} {ops[k]}) carries {val}, which was not the most recent value at any event since the previous telegram (most recent now: {newest}); log {short}")
        else:
            j_prev = j
    # ---- S3: reads are answered with the most recent value -------------------------
    reads = [j for j, e in enumerate(ev) if e["kind"] == "read" and e["recent"] is not None]
    responses = [i for i in range(len(log)) if log[i][1] == "GroupValueResponse"]
    for n, j in enumerate(reads):
        e = ev[j]
        if n >= len(responses):
            fail("C41:read-not-answered", f"read at op {e['op']} t={e['t']}: no GroupValueResponse (most recent value {e['recent']}); log {short}")
            break
        i = responses[n]
        if entry_op[i] < e["op"]:
            fail("C41:read-answer-mismatch", f"response #{n} at t={log[i][0]} precedes read #{n} at op {e['op']}")
            break
        if log[i][2] != e["recent"]:
            fail("C41:read-answer-not-most-recent", f"read at op {e['op']} t={e['t']} answered with {log[i][2]} at t={log[i][0]}; most recent value at the read is {e['recent']}; log {short}")
        if not rate and (entry_op[i] != e["op"] or abs(log[i][0] - e["t"]) > SLACK):
            fail("C41:read-answer-late", f"read at op {e['op']} t={e['t']} answered at t={log[i][0]} (op {entry_op[i]})")
    # ---- S1: cooldown between writes ---------------------------------------------
    if c > 0 and not rate:
        writes = [e for e in log if e[1] == "GroupValueWrite"]

        def periodic(w):
            prev = [e[0] for e in log if e[0] < w[0] - SLACK]
            return bool(P and prev and abs(w[0] - prev[-1] - P) <= SLACK)

        for w1, w2 in zip(writes, writes[1:]):
            if w2[0] - w1[0] < c - SLACK:
                if periodic(w1) or periodic(w2):
                    continue  # a periodic send is an additional telegram, not one caused by an update
                fail("C41:cooldown-violated", f"GroupValueWrite at t={w1[0]} and t={w2[0]} with cooldown {c}; log {short}")
                break
    # ---- S2 (+S4): the latest value is on the bus one cooldown after the update ----
    for j, e in enumerate(ev):
        if e["kind"] != "set":
            continue
        d = e["t"] + c + hold
        if any(x["kind"] in ("set", "init") and x["t"] <= d + SLACK for x in ev[j + 1 :]):
            continue  # not the last update of its window
        if d > t_end:
            continue
        p = vals[e["vi"]][1]
        seen = None
        for i, entry in enumerate(log):
            if entry[0] <= d + SLACK:
                seen = (entry_op[i], entry[2], f"{entry[1]} at t={entry[0]}")
        for x in ev[: j + 1]:
            if x["kind"] == "init" and (seen is None or seen[0] <= x["op"]):
                seen = (x["op"], vals[x["vi"]][1], f"initialize_value at op {x['op']}")
        if seen is None or seen[1] != p:
            rel = "skip_unchanged" if e["skip"] else "plain"
            fail(
                f"C41:latest-value-not-on-bus:{rel}",
                f"set({vals[e['vi']][0]!r}, skip_unchanged={e['skip']}) at op {e['op']} t={e['t']}: at t={d} the value last on the bus is {seen[1] if seen else None} ({seen[2] if seen else 'nothing sent'}), expected {p}; log {short}",
            )


def classify(case):
    c = case["cooldown"]
    rate = case.get("rate", 0)
    cls = {f"cooldown={c}", f"periodic={case['periodic']}", case["vtype"], f"rate={rate}"}
    if c and 0 < case["periodic"] <= c:
        cls.add("periodic<=cooldown")
    _ops, ev, _f, _l, _t = flatten(case)
    ev = [e for e in ev if e["op"] < len(case["ops"])]
    last_send_cause = None
    updates = 0
    nontrivial = False
    last_payload = None
    vals = VALUES[case["vtype"]]
    for op in case["ops"]:
        if op[0] == "burst":
            cls.add("burst")
            if any(s for _v, s in op[1][1:]):
                cls.add("burst-with-skip")
        elif op[0] == "adv" and op[1] and op[1] in (c, case["periodic"]):
            cls.add("gap=threshold")
        elif op[0] == "adv" and rate and op[1] < 1 / rate:
            cls.add("gap<1/rate")
    for e in ev:
        if e["kind"] == "set":
            updates += 1
            p = vals[e["vi"]][1]
            if updates >= 2 and (c == 0 or (last_send_cause is not None and e["t"] - last_send_cause < c)):
                nontrivial = True
                if c:
                    cls.add("set-in-cooldown")
            if e["skip"] and last_payload == p:
                nontrivial = True
                cls.add("skip-equal")
            elif e["skip"]:
                cls.add("skip-different")
            last_payload = p
            last_send_cause = e["t"]
        elif e["kind"] == "init":
            last_payload = vals[e["vi"]][1]
            cls.add("initialize")
        elif e["kind"] == "read" and last_payload is not None:
            nontrivial = True
            cls.add("read-after-update")
            last_send_cause = e["t"]
    return nontrivial, sorted(cls)


def check_case(ctx, case) -> None:
    try:
        obs = execute(case)
    except (BudgetExceeded, Deadlock):
        ctx.notes["inconclusive"] = ctx.notes.get("inconclusive", 0) + 1
        return
    except HarnessError:
        raise
    except Exception as e:  # noqa: BLE001
        ctx.fail(f"C41:scenario-exc:{exc_site(e)}", case, repr(e))
        return
    judge(ctx, case, obs)


def selftest(ctx) -> None:
    # the judge on synthetic logs: a correct trace passes, a stale / early / lost one fails
    from vk.core import Ctx

    def run_judge(case, obs):
        c = Ctx("C41", "quick", 1)
        judge(c, case, dict({"op_exc": [], "escaped": []}, **obs))
        return set(c.failures)

    W, R = "GroupValueWrite", "GroupValueResponse"
    case = {"cooldown": 5, "periodic": 0, "vtype": "binary", "ops": [["set", 1, False], ["adv", 1.0], ["set", 0, False]]}
    assert run_judge(case, {"slices": [1, 1, 1, 2], "log": [(0.0, W, 1, GA), (5.0, W, 0, GA)]}) == set()
    assert "C41:cooldown-violated" in run_judge(case, {"slices": [1, 1, 2, 2], "log": [(0.0, W, 1, GA), (1.0, W, 0, GA)]})
    assert "C41:latest-value-not-on-bus:plain" in run_judge(case, {"slices": [1, 1, 1, 1], "log": [(0.0, W, 1, GA)]})
    # back-to-back A,B,A with skip_unchanged on a sensor without cooldown: all three must reach the bus
    burst = {"cooldown": 0, "periodic": 0, "vtype": "binary", "ops": [["burst", [[0, True], [1, True], [0, True]]], ["read"]]}
    assert run_judge(burst, {"slices": [3, 4, 4], "log": [(0.0, W, 0, GA), (0.0, W, 1, GA), (0.0, W, 0, GA), (0.0, R, 0, GA)]}) == set()
    bad = run_judge(burst, {"slices": [2, 3, 3], "log": [(0.0, W, 0, GA), (0.0, W, 1, GA), (0.0, R, 1, GA)]})
    assert {"C41:latest-value-not-on-bus:skip_unchanged", "C41:read-answer-not-most-recent"} <= bad, bad
    # an older value after a newer one is stale even inside one burst
    assert "C41:stale-value-sent:write" in run_judge(burst, {"slices": [3, 4, 4], "log": [(0.0, W, 1, GA), (0.0, W, 0, GA), (0.0, W, 1, GA), (0.0, R, 0, GA)]})


# --------------------------------------------------------------------------- generation


def _enum_ops(c):
    return [["set", 0, False], ["set", 1, False], ["set", 0, True], ["set", 1, True], ["read"], ["adv", c / 2], ["adv", float(c)], ["adv", c + 0.125]]


def _burst_ops():
    singles = [[v, s] for v in (0, 1) for s in (False, True)]
    out = [["burst", [a, b]] for a in singles for b in singles]
    for s1 in (False, True):
        for s2 in (False, True):
            out.append(["burst", [[0, True], [1, s1], [0, s2]]])
            out.append(["burst", [[1, False], [0, s1], [1, s2]]])
    return out


def _alphabet(kind, c, rate):
    if kind == "cooldown":
        return _enum_ops(c)
    sets = [["set", 0, False], ["set", 1, False], ["set", 0, True], ["set", 1, True]]
    if kind == "burst":
        return sets + [["read"], ["adv", 0.5]] + _burst_ops()
    # rate limited: single updates spaced below 1/rate, or far apart
    return sets + [["read"], ["adv", 1 / 64], ["adv", 1.0]]


def _enum_shard(ctx, kind, c, P, rate, vtype, L) -> None:
    alphabet = _alphabet(kind, c, rate)
    for length in range(1, L + 1):
        n = nt = 0
        for ops in itertools.product(alphabet, repeat=length):
            if ops[-1][0] == "adv":
                continue  # the tail advance subsumes it
            case = {"cooldown": c, "periodic": P, "rate": rate, "vtype": vtype, "ops": [list(o) for o in ops]}
            check_case(ctx, case)
            n += 1
            if classify(case)[0]:
                nt += 1
            if n % 397 == 5:
                ctx.sample(case)
        ctx.bulk(n, nt, f"enum-{kind}-c{c}-p{P}-r{rate}-L{length}")


GAPS = [0.125, 0.5, 0.875, 1.0, 1.125, 1.875, 2.0, 2.125, 2.5, 4.0, 4.875, 5.0, 5.125, 6.875, 7.0, 7.125, 9.0]
SMALL_GAPS = [1 / 64, 1 / 32, 1 / 16, 0.125]


@st.composite
def cases(draw):
    vtype = draw(st.sampled_from(["binary", "temperature", "string"]))
    nv = len(VALUES[vtype])
    c = draw(st.sampled_from([0, 0, 1, 5, 5]))
    # periodic_send: none / shorter than / equal to / longer than the cooldown
    P = draw(st.sampled_from({0: [0, 7], 1: [0, 0.5, 1, 7], 5: [0, 2, 5, 7]}[c]))
    rate = draw(st.sampled_from([0, 0, 0, 5, 20]))
    # a tiny value pool makes A,B,A patterns likely
    pool = draw(st.lists(st.integers(0, nv - 1), min_size=2, max_size=2, unique=True)) if draw(st.booleans()) else list(range(nv))
    value = st.sampled_from(pool)
    one_set = st.tuples(value, st.booleans())
    alts = [
        st.tuples(st.just("set"), value, st.booleans()),
        st.tuples(st.just("set"), value, st.booleans()),
        st.tuples(st.just("burst"), st.lists(one_set, min_size=2, max_size=4)),
        st.tuples(st.just("read")),
        st.tuples(st.just("adv"), st.sampled_from(GAPS + SMALL_GAPS if rate else GAPS)),
        st.tuples(st.just("adv"), st.sampled_from(SMALL_GAPS if rate else GAPS)),
    ]
    if not rate:
        alts.append(st.tuples(st.just("init"), value))
    raw = draw(st.lists(st.one_of(*alts), min_size=1, max_size=14))
    ops = []
    for o in raw:
        o = list(o)
        if o[0] == "burst":
            o[1] = [list(x) for x in o[1]]
        ops.append(o)
    return {"cooldown": c, "periodic": P, "rate": rate, "vtype": vtype, "ops": ops}


def _hyp_oracle(ctx, case) -> None:
    check_case(ctx, case)
    nt, cls = classify(case)
    ctx.case(repr(case), nontrivial=nt, cls=cls, sample=case if len(case["ops"]) >= 7 else None)


def _hyp_shard(ctx, n: int) -> None:
    hyp_search(ctx, cases(), _hyp_oracle, n, shrink_cap_s=5.0 if ctx.quick else 30.0)


def _procs(want: int = 8) -> int:
    """Pool size: scheduling only (shards and seeds are the same for every pool size).
    On a saturated machine the fork pool costs several times the sequential run."""
    try:
        load = os.getloadavg()[0]
    except OSError:
        load = 0.0
    return want if load < cpu_count() else 1


def run(ctx) -> None:
    L = ctx.n(3, 4)
    jobs = [("cooldown", c, P, 0, vtype, L) for c in (1, 5) for P in (0, 7) for vtype in ("binary", "temperature")]
    jobs += [("cooldown", c, P, 0, "binary", L) for c, P in ((5, 2), (5, 5), (1, 0.5), (1, 1))]  # periodic_send <= cooldown
    jobs += [("burst", 0, P, 0, vtype, ctx.n(2, 3) if vtype == "binary" else 2) for P in (0, 7) for vtype in ("binary", "temperature")]
    jobs += [("rate", 0, P, rate, "binary", L) for P in (0, 7) for rate in (5, 20)]
    parallel(ctx, _enum_shard, jobs, procs=_procs())
    parallel(ctx, _hyp_shard, [(ctx.n(300, 4000),)] * 8, procs=_procs())
    ctx.notes["exhaustive_op_sequences_up_to"] = L
    ctx.notes["exhaustive_burst_sequences_up_to"] = ctx.n(2, 3)
    ctx.exhaustive = False


def replay(ctx, case) -> None:
    check_case(ctx, case)
