"""C41 - exposed values respect cooldown and always end up on the bus.

A real `ExposeSensor` (cooldown in {0,1,5} s, periodic_send in {0,7} s, value type
binary / 2-byte float / string) lives in a real, connected XKNX (telegram queue, task
registry, recording stub interface) on the virtual-time loop. Histories of
`set(value, skip_unchanged)`, incoming GroupValueRead, `initialize_value` and time
advances (gaps around the cooldown / periodic thresholds; all instants multiples of
1/8 s) are generated as data. The oracle reads only the stub's telegram log and the
history:

 S1 consecutive GroupValueWrite telegrams are >= cooldown apart (a write exactly one
    periodic interval after the previous outgoing telegram is a periodic send and exempt);
 S2 for every set() not followed by another update within the cooldown: at
    set-time + cooldown the value last on the bus (last outgoing write / response, or a
    later-or-equal initialize_value, which counts as sent) carries that value;
 S3 every GroupValueRead is answered in the same instant by GroupValueResponse(s) that
    carry the most recently set / initialized value;
 S4 (skip_unchanged) is S2/S3 with 'most recent' defined over *all* set() calls: a legal
    skip never changes the most recent payload, an illegal one leaves a stale value;
 S5 no outgoing telegram ever carries a value other than the most recent one.

Expected payloads come from fixed tables (KNX DPT 1 / 9.001 / 16.000 encodings written
down by hand), not from the encoder under test.
"""

from __future__ import annotations

import asyncio
import itertools
import os

from hypothesis import strategies as st

from vk.core import HarnessError, cpu_count, exc_site
from vk.engine import hyp_search, parallel
from vk.vloop import BudgetExceeded, Deadlock, run_case
from vk.xharness import XH

PROPERTY = "C41"
LEVEL = "exploration"
TECHNIQUE = "model-based history testing (bounded exhaustive op sequences + Hypothesis histories) of a real ExposeSensor in a real XKNX on a virtual-time loop; oracle over the recorded outgoing telegram log"
RULE = (
    "case = (cooldown in {0,1,5} s, periodic_send in {0,7} s, value type binary | temperature | string, history over {set(value, skip_unchanged), GroupValueRead from the bus, initialize_value(value), advance by a gap around the thresholds}); "
    "all op sequences up to length 3 (quick) / 4 (thorough) over {set A, set B, set A/B with skip_unchanged, read, advance cooldown/2, cooldown, cooldown+1/8} x cooldown {1,5} x periodic {0,7} are enumerated, longer histories (<= 14 ops) sampled; "
    "non-trivial = at least two updates of which one falls inside a running cooldown (or cooldown 0), or a read after an update, or an equal-payload set with skip_unchanged; distinct by case"
)
LEVEL_TEXT = "Generated update/read/initialize histories with timings around the cooldown and periodic thresholds run against the real ExposeSensor in virtual time; the four clauses of the statement are decided from the outgoing telegram log of a recording interface."
LEVEL_NOTE = "Virtual time, single-threaded asyncio, always connected, rate limit 0, stub interface that confirms every frame; payload expectations from hand-written DPT tables; histories bounded (<= 14 ops; exhaustive up to 3/4)."
ASSUMPTIONS = [
    "all instants are multiples of 1/8 s (exact in binary floating point); slack on every deadline 1e-6 s",
    "'value telegrams caused by updates' = GroupValueWrite telegrams; a write exactly periodic_send after the previous outgoing telegram is taken as a periodic send and a pair containing one is not held against the cooldown clause; responses to reads are not subject to it",
    "'value last on the bus' = payload of the last outgoing GroupValueWrite/GroupValueResponse; initialize_value() counts as sent (its documented contract) and as the most recent value; values are compared by encoded payload (two values with equal encoding are 'unchanged')",
    "a read before any value exists needs no answer; reads arrive through the cEMI receive path; the connection stays up (a stub interface cannot refuse frames), no foreign writes to the exposed address",
    "S5 (no telegram carries an older value than the most recent one at emission) is implied by 'answered with the most recent value' / 'always end up on the bus' and reported in its own bucket",
]

GA = "1/2/3"
SLACK = 1e-6
VALUES = {
    "binary": [(False, 0), (True, 1)],
    "temperature": [(21.0, [0x0C, 0x1A]), (10.0, [0x03, 0xE8]), (22.0, [0x0C, 0x4C]), (3.11, [0x01, 0x37]), (3.111, [0x01, 0x37])],
    "string": [("", [0] * 14), ("a", [0x61] + [0] * 13), ("KNX is OK", [0x4B, 0x4E, 0x58, 0x20, 0x69, 0x73, 0x20, 0x4F, 0x4B, 0, 0, 0, 0, 0])],
}
SETTLE = 14


def tail_s(case) -> float:
    return case["cooldown"] + case["periodic"] + 1.0


# --------------------------------------------------------------------------- execution


def execute(case):
    from xknx.devices import ExposeSensor
    from xknx.telegram import GroupAddress, Telegram
    from xknx.telegram.apci import GroupValueRead

    obs = {"log": [], "op_exc": [], "slices": []}
    vals = VALUES[case["vtype"]]

    async def scenario(loop):
        h = await XH.create(loop, rate_limit=0)
        h.connect()
        sensor = ExposeSensor(
            h.xknx,
            "dut",
            group_address=GA,
            value_type=case["vtype"],
            cooldown=case["cooldown"],
            periodic_send=case["periodic"],
        )
        h.xknx.devices.async_add(sensor)
        now = 0.0
        for k, op in enumerate(list(case["ops"]) + [["adv", tail_s(case)]]):
            try:
                if op[0] == "set":
                    await sensor.set(vals[op[1]][0], skip_unchanged=bool(op[2]))
                elif op[0] == "init":
                    sensor.initialize_value(vals[op[1]][0])
                elif op[0] == "read":
                    h.inject_ind(Telegram(destination_address=GroupAddress(GA), payload=GroupValueRead()))
                elif op[0] == "adv":
                    await asyncio.sleep(op[1])
                    now += op[1]
                    if loop.time() != now:
                        raise HarnessError(f"virtual clock {loop.time()} != {now}")
            except HarnessError:
                raise
            except Exception as e:  # noqa: BLE001
                obs["op_exc"].append((k, exc_site(e), repr(e)))
            for _ in range(SETTLE):
                await asyncio.sleep(0)
            obs["slices"].append(len(h.stub.sent))
        if not h.xknx.telegrams.empty() or h.stub.inflight:
            raise HarnessError("telegram queue not drained after settle")
        for r in h.stub.sent:
            tg = r["telegram"]
            p = getattr(tg, "payload", None)
            v = getattr(getattr(p, "value", None), "value", None)
            obs["log"].append((r["t"], type(p).__name__, list(v) if isinstance(v, tuple) else v, str(getattr(tg, "destination_address", None))))
        await h.close()

    _, loop = run_case(scenario, max_iters=300_000)
    obs["escaped"] = [(type(e["exception"]).__name__, e["repr"], e["message"]) for e in loop.escaped]
    return obs


# --------------------------------------------------------------------------- oracle


def judge(ctx, case, obs) -> None:
    inp = case
    c = case["cooldown"]
    P = case["periodic"]
    vals = VALUES[case["vtype"]]
    ops = list(case["ops"]) + [["adv", tail_s(case)]]
    failed = set()

    def fail(bucket, detail):
        if bucket not in failed:
            failed.add(bucket)
            ctx.fail(bucket, inp, detail)

    for k, site, rep in obs["op_exc"]:
        fail(f"C41:op-raised:{ops[k][0]}:{site}", f"op {k} {ops[k]}: {rep}")
    for name, rep, msg in obs["escaped"]:
        fail(f"C41:escaped:{name}", f"{rep} {msg}")
    # op start times and log slices
    t = 0.0
    t_op = []
    for op in ops:
        t_op.append(t)  # instant at which a non-advance op happens / an advance starts
        if op[0] == "adv":
            t += op[1]
    t_end = t
    log = obs["log"]
    entry_op = []
    k = 0
    for i in range(len(log)):
        while i >= obs["slices"][k]:
            k += 1
        entry_op.append(k)
    for i, (tt, kind, val, dest) in enumerate(log):
        if kind not in ("GroupValueWrite", "GroupValueResponse") or dest != GA:
            fail("C41:unexpected-telegram", f"{kind} to {dest} at t={tt}")
    # most recent value (payload) after each op
    recent = []
    cur = None
    for op in ops:
        if op[0] in ("set", "init"):
            cur = vals[op[1]][1]
        recent.append(cur)
    # ---- S5 / S3: payload of every outgoing telegram, answers to reads ----------
    for i, (tt, kind, val, dest) in enumerate(log):
        k = entry_op[i]
        if recent[k] is None or val != recent[k]:
            rel = "read-answer" if kind == "GroupValueResponse" else "write"
            fail(f"C41:stale-value-sent:{rel}", f"{kind} at t={tt} (during op {k} {ops[k]}) carries {val}; most recent value is {recent[k]}")
    for k, op in enumerate(ops):
        if op[0] != "read" or recent[k] is None:
            continue
        answers = [log[i] for i in range(len(log)) if entry_op[i] == k and log[i][1] == "GroupValueResponse"]
        if not answers:
            fail("C41:read-not-answered", f"read at op {k} t={t_op[k]}: no GroupValueResponse in that instant (most recent value {recent[k]})")
        elif any(a[0] != t_op[k] for a in answers):
            fail("C41:read-answer-late", f"read at op {k} t={t_op[k]} answered at {[a[0] for a in answers]}")
    # ---- S1: cooldown between writes ---------------------------------------------
    if c > 0:
        writes = [e for e in log if e[1] == "GroupValueWrite"]
        for w1, w2 in zip(writes, writes[1:]):
            if w2[0] - w1[0] < c - SLACK:
                def periodic(w):
                    prev = [e[0] for e in log if e[0] < w[0]]
                    return bool(P and prev and abs(w[0] - prev[-1] - P) <= SLACK)

                if periodic(w1) or periodic(w2):
                    continue  # a periodic send is an additional telegram, not one caused by an update
                fail("C41:cooldown-violated", f"GroupValueWrite at t={w1[0]} and t={w2[0]} with cooldown {c}; log {[(e[0], e[1][10:], e[2]) for e in log][:12]}")
                break
    # ---- S2 (+S4): the latest value is on the bus one cooldown after the update ----
    for k, op in enumerate(ops):
        if op[0] != "set":
            continue
        d = t_op[k] + c
        if any(o[0] in ("set", "init") and t_op[j] <= d + SLACK for j, o in enumerate(ops) if j > k):
            continue  # not the last update of its window
        if d > t_end:
            continue
        p = vals[op[1]][1]
        last = None
        for i, e in enumerate(log):
            if e[0] <= d + SLACK:
                last = (entry_op[i], e[2], f"{e[1]} at t={e[0]}")
        for j in range(k + 1):
            if ops[j][0] == "init" and (last is None or last[0] <= j):
                last = (j, vals[ops[j][1]][1], f"initialize_value at op {j}")
        if last is None or last[1] != p:
            rel = "skip_unchanged" if op[2] else "plain"
            fail(
                f"C41:latest-value-not-on-bus:{rel}",
                f"set({vals[op[1]][0]!r}, skip_unchanged={bool(op[2])}) at op {k} t={t_op[k]}: at t={d} the value last on the bus is {last[1] if last else None} ({last[2] if last else 'nothing sent'}), expected {p}",
            )


def classify(case):
    c = case["cooldown"]
    cls = {f"cooldown={c}", f"periodic={case['periodic']}", case["vtype"]}
    t = 0.0
    last_send_cause = None
    updates = 0
    nontrivial = False
    seen_update = False
    last_payload = None
    vals = VALUES[case["vtype"]]
    for op in case["ops"]:
        if op[0] == "adv":
            t += op[1]
            if op[1] in (c, case["periodic"]) and op[1]:
                cls.add("gap=threshold")
        elif op[0] == "set":
            updates += 1
            if updates >= 2 and (c == 0 or (last_send_cause is not None and t - last_send_cause < c)):
                nontrivial = True
                if c:
                    cls.add("set-in-cooldown")
            if op[2] and last_payload == vals[op[1]][1]:
                nontrivial = True
                cls.add("skip-equal")
            elif op[2]:
                cls.add("skip-different")
            last_payload = vals[op[1]][1]
            seen_update = True
            last_send_cause = t
        elif op[0] == "init":
            last_payload = vals[op[1]][1]
            seen_update = True
            cls.add("initialize")
        elif op[0] == "read":
            if seen_update:
                nontrivial = True
                cls.add("read-after-update")
                last_send_cause = t
    return nontrivial, sorted(cls)


def check_case(ctx, case) -> None:
    try:
        obs = execute(case)
    except (BudgetExceeded, Deadlock):
        ctx.notes["inconclusive"] = ctx.notes.get("inconclusive", 0) + 1
        return
    except HarnessError:
        raise
    except Exception as e:  # noqa: BLE001
        ctx.fail(f"C41:scenario-exc:{exc_site(e)}", case, repr(e))
        return
    judge(ctx, case, obs)


def selftest(ctx) -> None:
    # the judge on synthetic logs: a correct trace passes, a stale / early one fails
    from vk.core import Ctx

    case = {"cooldown": 5, "periodic": 0, "vtype": "binary", "ops": [["set", 1, False], ["adv", 1.0], ["set", 0, False]]}
    good = {"op_exc": [], "escaped": [], "slices": [1, 1, 1, 2], "log": [(0.0, "GroupValueWrite", 1, GA), (5.0, "GroupValueWrite", 0, GA)]}
    c1 = Ctx("C41", "quick", 1)
    judge(c1, case, good)
    assert not c1.failures, c1.failures
    early = dict(good, slices=[1, 1, 2, 2], log=[(0.0, "GroupValueWrite", 1, GA), (1.0, "GroupValueWrite", 0, GA)])
    c2 = Ctx("C41", "quick", 1)
    judge(c2, case, early)
    assert "C41:cooldown-violated" in c2.failures
    lost = dict(good, slices=[1, 1, 1, 1], log=[(0.0, "GroupValueWrite", 1, GA)])
    c3 = Ctx("C41", "quick", 1)
    judge(c3, case, lost)
    assert "C41:latest-value-not-on-bus:plain" in c3.failures


# --------------------------------------------------------------------------- generation


def _enum_ops(c):
    return [["set", 0, False], ["set", 1, False], ["set", 0, True], ["set", 1, True], ["read"], ["adv", c / 2], ["adv", float(c)], ["adv", c + 0.125]]


def _enum_shard(ctx, c, P, vtype, L) -> None:
    alphabet = _enum_ops(c)
    for length in range(1, L + 1):
        n = nt = 0
        for ops in itertools.product(alphabet, repeat=length):
            if ops[-1][0] == "adv":
                continue  # the tail advance subsumes it
            case = {"cooldown": c, "periodic": P, "vtype": vtype, "ops": [list(o) for o in ops]}
            check_case(ctx, case)
            n += 1
            if classify(case)[0]:
                nt += 1
            if n % 397 == 5:
                ctx.sample(case)
        ctx.bulk(n, nt, f"enum-c{c}-p{P}-L{length}")


GAPS = [0.125, 0.5, 0.875, 1.0, 1.125, 2.0, 2.5, 4.875, 5.0, 5.125, 6.875, 7.0, 7.125, 9.0]


@st.composite
def cases(draw):
    vtype = draw(st.sampled_from(["binary", "temperature", "string"]))
    nv = len(VALUES[vtype])
    c = draw(st.sampled_from([0, 1, 5, 5]))
    P = draw(st.sampled_from([0, 7]))
    op = st.one_of(
        st.tuples(st.just("set"), st.integers(0, nv - 1), st.booleans()),
        st.tuples(st.just("set"), st.integers(0, nv - 1), st.booleans()),
        st.tuples(st.just("read")),
        st.tuples(st.just("adv"), st.sampled_from(GAPS)),
        st.tuples(st.just("adv"), st.sampled_from(GAPS)),
        st.tuples(st.just("init"), st.integers(0, nv - 1)),
    )
    ops = [list(o) for o in draw(st.lists(op, min_size=1, max_size=14))]
    return {"cooldown": c, "periodic": P, "vtype": vtype, "ops": ops}


def _hyp_oracle(ctx, case) -> None:
    check_case(ctx, case)
    nt, cls = classify(case)
    ctx.case(repr(case), nontrivial=nt, cls=cls, sample=case if len(case["ops"]) >= 7 else None)


def _hyp_shard(ctx, n: int) -> None:
    hyp_search(ctx, cases(), _hyp_oracle, n, shrink_cap_s=5.0 if ctx.quick else 30.0)



def _procs(want: int = 8) -> int:
    """Pool size: scheduling only (shards and seeds are the same for every pool size).
    On a saturated machine the fork pool costs several times the sequential run."""
    try:
        load = os.getloadavg()[0]
    except OSError:
        load = 0.0
    return want if load < cpu_count() else 1

def run(ctx) -> None:
    L = ctx.n(3, 4)
    jobs = [(c, P, vtype, L) for c in (1, 5) for P in (0, 7) for vtype in ("binary", "temperature")]
    parallel(ctx, _enum_shard, jobs, procs=_procs())
    parallel(ctx, _hyp_shard, [(ctx.n(300, 4000),)] * 8, procs=_procs())
    ctx.notes["exhaustive_op_sequences_up_to"] = L
    ctx.exhaustive = False


def replay(ctx, case) -> None:
    check_case(ctx, case)
