"""C22 - transports deliver stream frames once, in order, without crashing.

The real `TCPTransport` / `UDPTransport` are driven through their asyncio protocol objects
(`TCPTransportFactory.data_received`, `UDPTransportFactory.datagram_received`) with a fake
transport, no sockets and no event loop activity. Streams are built from valid frames (C21
strategies), malformed frames with a readable announced length >= 6, and an optional
unreadable / incomplete tail. A reference stream splitter that only reads the 6 header octets
decides where frames start; which frames are well-formed is known by construction (or, for
frames taken from the C20 mutation space, from a stand-alone parse of that frame - a
metamorphic relation: the transport must deliver exactly the frames the parser accepts).
"""

from __future__ import annotations

import asyncio
import itertools

from hypothesis import strategies as st

from checks.c21 import deep_diff
from vk.budget import StepBudget, StepBudgetExceeded
from vk.budget import selftest as budget_selftest
from vk.core import exc_site
from vk.engine import hyp_collect, parallel
from vk.strategies import knxip as S

PROPERTY = "C22"
LEVEL = "exploration"
TECHNIQUE = "generated frame streams x exhaustive / pairwise / random chunkings against a reference stream splitter (metamorphic over chunkings), fake asyncio transports"
RULE = (
    "streams of 1..8 items: valid frames of all service types (C21 strategies), malformed frames with readable "
    "announced length (bad version, unknown service code, unimplemented service, body the parser declares broken, "
    "frames from the C20 mutation space) and an optional tail (unreadable first octet, announced length < 6, "
    "truncated valid frame); chunkings: all 2^(n-1) boundary sets for streams of n <= 14 octets, every single and "
    "every pair of split points for streams <= 60 octets, random boundary sets, octet-by-octet and one-chunk delivery "
    "for all, one chunk holding >= 3000 frames, single chunks of 2000..6000 frames of which 100/75/50/25/10 % (and "
    "two runs of 1600) are malformed-with-readable-length interleaved with valid ones; UDP: datagram sequences of the same items plus empty / truncated / "
    "random datagrams; non-trivial = stream with a malformed frame followed by a valid one, or a chunk boundary "
    "inside a 6-octet header; distinct by (stream, chunking) hash"
    "; thorough tier only: atheris/libFuzzer campaigns (vk/fuzz.py, fuzz/c22_target.py; 8 processes, half from an empty corpus, half from "
    "a seed corpus of valid inputs, -runs budget, -seed derived from VERIF_SEED) with this same oracle inside the target: input = stream octets + chunk sizes (TCP) or datagram lengths (UDP) via FuzzedDataProvider; the reference splitter turns the stream into 'c20:' items + tail, Plan/deliver_tcp/deliver_udp judge that one chunking (after an unreadable header only exceptions / non-termination); each "
    "execution counts as one evaluation, it is non-trivial by the same rule (malformed frame followed by a valid one, or a chunk boundary inside a header, measured in the target), distinct by input hash"
)
FUZZ_RUNS = 200_000  # executions per campaign (thorough tier)
ASSUMPTIONS = [
    "well-formedness of a frame is known by construction for generated valid frames and for the listed declared "
    "malformations; for frames from the C20 mutation space it is taken from a stand-alone parse of that frame "
    "(metamorphic relation transport-vs-parser, not an independent reference)",
    "delivered frames are compared with the stand-alone parse of the same octets by deep field comparison; the "
    "source handed to callbacks must be the transport's remote HPAI (TCP) / HPAI of the datagram address (UDP)",
    "after an unreadable header (first octet != 06h or announced length < 6) only 'no exception, terminates' is "
    "required; frames before it must still be delivered",
    "an exception that escapes because the parser raised an undeclared exception type for one frame (C20 defects) "
    "is bucketed separately (C22:escape-from-parser:*) - its root cause is the parser, not the transport",
]
LEVEL_TEXT = (
    "Exhaustive over chunkings for short streams, pairwise for medium ones, sampled for long ones; sampled over "
    "stream contents. A chunking-dependent defect that needs three or more specific boundaries in a stream longer "
    "than 14 octets can be missed."
)
LEVEL_NOTE = (
    "Trusted: reference splitter (header length octet, announced length) in this module, vk/budget.py. No real "
    "sockets or event loop scheduling are involved: only the synchronous protocol callbacks are exercised."
)

A_STEPS = 20000
B_STEPS = 600  # per octet fed so far (re-parsing of the buffered prefix on every chunk included)

REMOTE = ("192.0.2.1", 3671)
UDP_SRC = ("192.0.2.7", 50001)


# ---------------------------------------------------------------------------
# reference splitter


def ref_split(stream: bytes):
    """-> (list of (start, end) of frames with readable header, stop_reason)."""
    pos, out = 0, []
    n = len(stream)
    while pos < n:
        if stream[pos] != 6:
            return out, "unreadable"
        if n - pos < 6:
            return out, "incomplete"
        total = stream[pos + 4] * 256 + stream[pos + 5]
        if total < 6:
            return out, "unreadable"
        if n - pos < total:
            return out, "incomplete"
        out.append((pos, pos + total))
        pos += total
    return out, "end"


def selftest(ctx) -> None:
    budget_selftest()
    a = bytes.fromhex("061005300006")
    b = bytes.fromhex("06100208000801" + "00")
    assert ref_split(a + b) == ([(0, 6), (6, 14)], "end")
    assert ref_split(a + b[:5]) == ([(0, 6)], "incomplete")
    assert ref_split(a + b"\x00" + b) == ([(0, 6)], "unreadable")
    assert ref_split(a + bytes.fromhex("061005300005")) == ([(0, 6)], "unreadable")
    assert list(chunks_of(b"abcdef", [2, 3])) == [b"ab", b"c", b"def"]
    assert len(list(all_cut_sets(4))) == 8


# ---------------------------------------------------------------------------
# stand-alone classification of one frame (under budget)


def classify(raw: bytes):
    """-> (kind, frame) kind in ok|declared|undeclared|nonterm."""
    from xknx.exceptions import CouldNotParseKNXIP
    from xknx.knxip import KNXIPFrame

    try:
        with StepBudget(A_STEPS + B_STEPS * len(raw)):
            frame, rest = KNXIPFrame.from_knx(raw)
    except StepBudgetExceeded:
        return "nonterm", None
    except CouldNotParseKNXIP:
        return "declared", None
    except Exception:  # noqa: BLE001
        return "undeclared", None
    if rest or (len(raw) >= 6 and raw[4] * 256 + raw[5] < 6):
        return "undeclared", None  # accepted a frame shorter than its header (C20:accepted-announced-lt-6)
    return "ok", frame


# ---------------------------------------------------------------------------
# items


def _with_len(frame: bytes) -> bytes:
    return S._with_len(frame)


DECLARED_MALFORMED = [
    ("malformed:hpai-length", bytes.fromhex("06100201000e" "0701c0a80001e1f7")),
    ("malformed:hpai-protocol", bytes.fromhex("061002070010" "0100" "0803c0a80001e1f7")),
    ("malformed:session-status-code", bytes.fromhex("061009540008" "7f00")),
    ("malformed:session-auth-length", bytes.fromhex("061009530017") + bytes(17)),
    ("malformed:tunnelling-ack-structlen", bytes.fromhex("06100421000a" "05010200")),
    ("malformed:timer-notify-length", bytes.fromhex("061009550008" "0000")),
]


@st.composite
def items(draw):
    k = draw(st.integers(0, 9))
    if k <= 3:
        cls, frame = draw(S.small_valid_frames())
        return ["valid:" + cls, frame]
    if k == 4:
        cls, frame = draw(S.small_valid_frames())
        v = draw(st.sampled_from((0x00, 0x0F, 0x11, 0x20, 0xFF)))
        return ["malformed:version", frame[:1] + bytes((v,)) + frame[2:]]
    if k == 5:
        cls, frame = draw(S.small_valid_frames())
        code = draw(st.sampled_from((0x0000, 0x0200, 0x020D, 0x0426, 0x0956, 0x0999, 0xFFFF)))
        return ["malformed:unknown-service", frame[:2] + bytes((code >> 8, code & 0xFF)) + frame[4:]]
    if k == 6:
        cls, frame = draw(S.small_valid_frames())
        code = draw(st.sampled_from(S.UNIMPLEMENTED_SERVICES))
        return ["malformed:unimplemented-service", frame[:2] + bytes((code >> 8, code & 0xFF)) + frame[4:]]
    if k == 7:
        return list(draw(st.sampled_from(DECLARED_MALFORMED)))
    # C20 mutation space, restricted to frames whose header announces exactly their size
    cls, frame = draw(S.small_valid_frames())
    muts = [(m, d) for m, d in S.mutations(frame) if len(d) >= 6 and d[0] == 6 and d[4] * 256 + d[5] == len(d)]
    if not muts:
        return ["valid:" + cls, frame]
    m, d = muts[draw(st.integers(0, len(muts) - 1))]
    return ["c20:" + m, d]


@st.composite
def tails(draw):
    k = draw(st.integers(0, 5))
    if k <= 2:
        return ["none", b""]
    if k == 3:
        return ["tail:unreadable", bytes((draw(st.integers(0, 255).filter(lambda v: v != 6)),)) + draw(st.binary(max_size=12))]
    if k == 4:
        cls, frame = draw(S.small_valid_frames())
        return ["tail:announced-lt-6", frame[:4] + bytes((0, draw(st.integers(0, 5)))) + frame[6:]]
    cls, frame = draw(S.small_valid_frames())
    return ["tail:incomplete", frame[: draw(st.integers(1, len(frame) - 1))]]


@st.composite
def streams(draw, max_items: int = 8, max_len: int | None = None):
    its = draw(st.lists(items(), min_size=1, max_size=max_items))
    if max_len is not None:
        while len(its) > 1 and sum(len(i[1]) for i in its) > max_len:
            its.pop()
    return {"items": its, "tail": draw(tails())}


# ---------------------------------------------------------------------------
# chunkings


def chunks_of(stream: bytes, cuts):
    prev = 0
    for c in cuts:
        yield stream[prev:c]
        prev = c
    yield stream[prev:]


def all_cut_sets(n: int):
    """All 2^(n-1) boundary sets of an n-octet stream."""
    pts = range(1, n)
    for r in range(0, n):
        yield from itertools.combinations(pts, r)


def single_and_pair_cuts(n: int):
    pts = range(1, n)
    for a in pts:
        yield (a,)
    yield from itertools.combinations(pts, 2)


# ---------------------------------------------------------------------------
# expectation


class Plan:
    """Stream octets, expected deliveries and bookkeeping for one stream."""

    def __init__(self, case: dict) -> None:
        self.case = case
        parts = []
        self.expected = []  # stand-alone parsed frames, in stream order
        self.expected_raw = []
        self.parser_defect = False  # stream holds a frame on which the parser itself misbehaves
        self.malformed_then_valid = False
        self.usable = True
        seen_malformed = False
        for kind, raw, *rep in case["items"]:
            raw = bytes(raw)
            rep = rep[0] if rep else 1
            parts.append(raw * rep)
            verdict, frame = classify(raw)
            if kind.startswith("valid:"):
                if verdict != "ok":
                    self.usable = False  # parser rejects a valid frame: C20/C21 subject
                want = True
            elif kind.startswith("malformed:"):
                if verdict in ("undeclared", "nonterm"):
                    self.parser_defect = True
                if verdict == "ok":
                    self.usable = False  # construction error, would be a harness problem
                want = False
            else:  # c20 space: metamorphic
                if verdict in ("undeclared", "nonterm"):
                    self.parser_defect = True
                want = verdict == "ok"
            if want:
                if seen_malformed:
                    self.malformed_then_valid = True
                for _ in range(rep):
                    self.expected.append(frame)
                    self.expected_raw.append(raw)
            else:
                seen_malformed = True
        # "cycle": n repeats the whole item pattern n times (interleaved stress streams stay small as data)
        cycle = int(case.get("cycle", 1))
        if cycle > 1:
            if seen_malformed and self.expected:
                self.malformed_then_valid = True
            parts = parts * cycle
            self.expected = self.expected * cycle
            self.expected_raw = self.expected_raw * cycle
        self.has_malformed = seen_malformed or case["tail"][0] in ("tail:unreadable", "tail:announced-lt-6")
        self.n_items = cycle * sum((i[2] if len(i) > 2 else 1) for i in case["items"])
        self.n_malformed = cycle * sum((i[2] if len(i) > 2 else 1) for i in case["items"] if not i[0].startswith("valid:"))
        self.tail_kind, tail = case["tail"]
        if self.tail_kind == "tail:announced-lt-6":
            self.parser_defect = True  # parser accepts such headers on the pinned tree (C20 finding)
        self.stream = b"".join(parts) + bytes(tail)
        self.frame_spans, self.stop = ref_split(self.stream)


class _FakeTransport:
    def get_extra_info(self, name, default=None):
        return default

    def close(self) -> None:
        pass

    def is_closing(self) -> bool:
        return False

    def write(self, data) -> None:
        pass

    def sendto(self, data, addr=None) -> None:
        pass


def _escape_bucket(plan_defect: bool, transport: str, e: BaseException, plan: "Plan | None" = None) -> str:
    if isinstance(e, RecursionError):
        if plan is not None and plan.n_items >= 500:
            return f"C22:exception-escaped:{transport}:RecursionError:one-recursion-level-per-frame"
        if plan_defect:
            return f"C22:escape-from-parser:{transport}"
        return f"C22:exception-escaped:{transport}:RecursionError:other"
    s = exc_site(e)
    if "@xknx.knxip." in s and plan_defect:
        return f"C22:escape-from-parser:{transport}"
    if plan is not None:
        # the same crash site reached by a stream of well-formed frames only is another root cause
        s += ":stream-with-malformed-frame" if plan.has_malformed else ":well-formed-frames-only"
    return f"C22:exception-escaped:{transport}:{s}"


def deliver_tcp(ctx, plan: Plan, cuts, label: str) -> bool:
    """Feed one chunking to a fresh TCPTransport; record failures. True if no failure."""
    from xknx.io.transport import TCPTransport
    from xknx.knxip import HPAI, HostProtocol, KNXIPServiceType

    cuts = list(cuts)
    t = TCPTransport(REMOTE)
    got, got_filtered = [], []
    t.register_callback(lambda frame, source, tr: got.append((frame, source, tr)))
    t.register_callback(lambda frame, source, tr: got_filtered.append(frame), [KNXIPServiceType.TUNNELLING_ACK, KNXIPServiceType.ROUTING_INDICATION])
    proto = TCPTransport.TCPTransportFactory(t.data_received_callback, lambda: None)
    proto.connection_made(_FakeTransport())
    inside_header = any(s < c < s + 6 for c in cuts for s, _e in plan.frame_spans)
    key = (plan.stream, tuple(cuts)) if len(plan.stream) < 4096 else (len(plan.stream), plan.stream[:64], tuple(cuts))
    ctx.case(key, nontrivial=plan.malformed_then_valid or inside_header, cls=label)
    inp = {"transport": "tcp", "items": plan.case["items"], "tail": plan.case["tail"], "cuts": cuts}
    if plan.case.get("cycle", 1) != 1:
        inp["cycle"] = plan.case["cycle"]
    fed = 0
    for chunk in chunks_of(plan.stream, cuts):
        fed += len(chunk)
        try:
            with StepBudget(A_STEPS + B_STEPS * fed):
                proto.data_received(chunk)
        except StepBudgetExceeded as e:
            if plan.parser_defect:
                ctx.fail("C22:escape-from-parser:tcp", inp, f"non-termination inside the parser: {e.site}")
            else:
                ctx.fail(f"C22:nontermination:tcp:{e.site}", inp, str(e))
            return False
        except Exception as e:  # noqa: BLE001
            ctx.fail(_escape_bucket(plan.parser_defect, "tcp", e, plan), inp, f"{type(e).__name__}: {str(e)[:200]} (after {fed} of {len(plan.stream)} octets)")
            return False
    # deliveries
    ok = True
    exp = plan.expected
    if len(got) != len(exp) or any(deep_diff(g[0], x) is not None for g, x in zip(got, exp)):
        ok = False
        if plan.parser_defect:
            ctx.fail("C22:mismatch-with-parser-defect:tcp", inp, f"{len(got)} deliveries, expected {len(exp)}; the stream holds a frame on which the parser itself misbehaves (C20)")
        elif len(got) < len(exp) and all(deep_diff(g[0], x) is None for g, x in zip(got, exp)):
            why = "after-malformed" if plan.malformed_then_valid else "plain"
            ctx.fail(f"C22:lost-frames:tcp:{why}", inp, f"{len(got)} of {len(exp)} well-formed frames delivered; first missing: {plan.expected_raw[len(got)].hex()}")
        elif len(got) > len(exp):
            ctx.fail("C22:extra-or-duplicate-frames:tcp", inp, f"{len(got)} deliveries for {len(exp)} well-formed frames")
        else:
            ctx.fail("C22:wrong-frame-or-order:tcp", inp, f"delivered {[g[0] for g in got][:4]!r}")
    else:
        want_f = [x for x in exp if x.header.service_type_ident in (KNXIPServiceType.TUNNELLING_ACK, KNXIPServiceType.ROUTING_INDICATION)]
        if len(got_filtered) != len(want_f) or any(deep_diff(g, x) is not None for g, x in zip(got_filtered, want_f)):
            ok = False
            ctx.fail("C22:filtered-callback:tcp", inp, f"{len(got_filtered)} deliveries to the service-type filtered callback, expected {len(want_f)}")
        src = HPAI(*REMOTE, protocol=HostProtocol.IPV4_TCP)
        if any(deep_diff(g[1], src) is not None or g[2] is not t for g in got):
            ok = False
            ctx.fail("C22:callback-source:tcp", inp, "callback source is not the remote HPAI / transport")
    return ok


def deliver_udp(ctx, case: dict) -> None:
    """case: {"datagrams": [[kind, octets], ...]}"""
    from xknx.io.transport import UDPTransport
    from xknx.knxip import HPAI

    u = UDPTransport(("192.0.2.2", 0), REMOTE)
    got = []
    u.register_callback(lambda frame, source, tr: got.append((frame, source, tr)))
    proto = UDPTransport.UDPTransportFactory(u.data_received_callback)
    proto.connection_made(_FakeTransport())
    inp = {"transport": "udp", "datagrams": case["datagrams"]}
    seen_bad = False
    nontrivial = False
    expected = []
    defect = False
    for kind, raw in case["datagrams"]:
        raw = bytes(raw)
        # UDP ignores octets after the announced length: classify the announced part
        total = raw[4] * 256 + raw[5] if len(raw) >= 6 else 0
        verdict, frame = classify(raw[:total] if 6 <= total <= len(raw) else raw)
        if verdict in ("undeclared", "nonterm"):
            defect = True
        if kind.startswith("valid:") and verdict != "ok":
            return  # parser rejects a valid frame: not this property
        if kind.startswith("malformed:") and verdict == "ok":
            return
        if verdict == "ok":
            expected.append(frame)
            nontrivial = nontrivial or seen_bad
        else:
            seen_bad = True
    ctx.case(("udp", tuple(bytes(d[1]) for d in case["datagrams"])), nontrivial=nontrivial, cls="udp-sequence")
    for i, (kind, raw) in enumerate(case["datagrams"]):
        raw = bytes(raw)
        try:
            with StepBudget(A_STEPS + B_STEPS * len(raw)):
                proto.datagram_received(raw, UDP_SRC)
        except StepBudgetExceeded as e:
            ctx.fail("C22:escape-from-parser:udp" if defect else f"C22:nontermination:udp:{e.site}", inp, f"datagram {i}: {e}")
            return
        except Exception as e:  # noqa: BLE001
            ctx.fail(_escape_bucket(defect, "udp", e), inp, f"datagram {i} ({kind}) {raw[:32].hex()}: {type(e).__name__}: {str(e)[:200]}")
            return
    if len(got) != len(expected) or any(deep_diff(g[0], x) is not None for g, x in zip(got, expected)):
        ctx.fail("C22:mismatch-with-parser-defect:udp" if defect else "C22:delivery-mismatch:udp", inp, f"{len(got)} deliveries, expected {len(expected)}")
    elif any(deep_diff(g[1], HPAI(*UDP_SRC)) is not None or g[2] is not u for g in got):
        ctx.fail("C22:callback-source:udp", inp, "callback source is not HPAI(*addr) / transport")


# ---------------------------------------------------------------------------
# drivers


def run_plan(ctx, case: dict, mode: str) -> None:
    plan = Plan(case)
    if not plan.usable:
        ctx.notes["streams_skipped_parser_disagrees_with_construction"] = ctx.notes.get("streams_skipped_parser_disagrees_with_construction", 0) + 1
        return
    n = len(plan.stream)
    if n == 0:
        return
    if "cuts" in case and mode == "replay":
        deliver_tcp(ctx, plan, case["cuts"], "replay")
        return
    ok = deliver_tcp(ctx, plan, (), "one-chunk")
    ok = deliver_tcp(ctx, plan, range(1, n), "octet-by-octet") and ok
    if not ok:
        return  # the chunking enumerations would only repeat the same failure
    if mode == "exhaustive":
        it, label = all_cut_sets(n), "all-boundary-sets"
    elif mode == "pairs":
        it, label = single_and_pair_cuts(n), "single-and-pair-splits"
    else:
        for cuts in case.get("random_cuts", []):
            deliver_tcp(ctx, plan, sorted(set(c for c in cuts if 0 < c < n)), "random-boundaries")
        return
    bad = 0
    for cuts in it:
        if not deliver_tcp(ctx, plan, cuts, label):
            bad += 1
            if bad >= 5:
                break


@st.composite
def random_cases(draw):
    case = draw(streams())
    n = sum(len(i[1]) for i in case["items"]) + len(case["tail"][1])
    case["random_cuts"] = draw(st.lists(st.lists(st.integers(1, max(1, n - 1)), max_size=12), min_size=1, max_size=4))
    return case


@st.composite
def udp_cases(draw):
    ds = []
    for _ in range(draw(st.integers(1, 6))):
        k = draw(st.integers(0, 9))
        if k <= 5:
            ds.append(draw(items()))
        elif k == 6:
            ds.append(["empty", b""])
        elif k == 7:
            cls, frame = draw(S.small_valid_frames())
            ds.append(["truncated", frame[: draw(st.integers(0, len(frame) - 1))]])
        elif k == 8:
            cls, frame = draw(S.small_valid_frames())
            ds.append(["valid:" + cls + "+trailing", frame + draw(st.binary(min_size=1, max_size=8))])
        else:
            ds.append(list(draw(S.random_inputs())))
    return {"datagrams": ds}


def _v(hexstr: str) -> bytes:
    return bytes.fromhex(hexstr)


# 6 and 8 octet frames for the exhaustive boundary-set enumeration (<= 14 octets per stream)
V6_ROUTING = ["valid:RoutingIndication", _v("061005300006")]
V6_DESCR = ["valid:DescriptionResponse", _v("061002040006")]
V8_CSR = ["valid:ConnectionStateResponse", _v("061002080008" "1500")]
V8_STATUS = ["valid:SessionStatus", _v("061009540008" "0400")]
M6_VERSION = ["malformed:version", _v("061105300006")]
M6_UNKNOWN = ["malformed:unknown-service", _v("0610020d0006")]
M8_STATUS = ["malformed:session-status-code", _v("061009540008" "7f00")]
M8_UNIMPL = ["malformed:unimplemented-service", _v("061005330008" "0000")]
NONE = ["none", b""]

SHORT_STREAMS = [
    {"items": [V6_ROUTING, V8_CSR], "tail": NONE},
    {"items": [V8_STATUS, V6_DESCR], "tail": NONE},
    {"items": [M6_VERSION, V8_CSR], "tail": NONE},
    {"items": [M8_STATUS, V6_ROUTING], "tail": NONE},
    {"items": [M6_UNKNOWN, V6_ROUTING], "tail": ["tail:incomplete", _v("0610")]},
    {"items": [V6_DESCR, M8_UNIMPL], "tail": NONE},
    {"items": [V6_ROUTING, V6_DESCR], "tail": ["tail:unreadable", _v("0000")]},
    {"items": [V6_ROUTING], "tail": ["tail:incomplete", _v("0610020800081500")[:7]]},
]

ACK = _v("06100421000a" "04010000")


def big_cases(ctx):
    n = ctx.n(3200, 6000)
    yield {"items": [["valid:TunnellingAck", ACK, n]], "tail": NONE}
    yield {"items": [["valid:TunnellingAck", ACK, 1500], M8_STATUS + [1], ["valid:RoutingIndication", _v("061005300008" "2900"), 1700]], "tail": ["tail:incomplete", ACK[:9]]}


M10_ACK_STRUCTLEN = ["malformed:tunnelling-ack-structlen", _v("06100421000a" "05010200")]
V8_ROUTING = ["valid:RoutingIndication", _v("061005300008" "2900")]
V_ACK = ["valid:TunnellingAck", ACK]


def stress_cases(ctx):
    """Single chunks of 1500..6000 frames in which a fixed fraction (100 %, 75 %, 50 %, 25 %, 10 %,
    one long run) is malformed-with-readable-length (bad version, unknown / unimplemented service,
    body the parser rejects), interleaved with valid frames. Deterministic enumeration.
    (label, case)"""
    t = 1 if ctx.quick else 2
    yield "100pct", {"items": [M6_VERSION, M6_UNKNOWN, M8_STATUS, M8_UNIMPL, M10_ACK_STRUCTLEN], "tail": NONE, "cycle": 400 * t}  # 2000 / 4000 frames
    yield "75pct", {"items": [M6_UNKNOWN, V_ACK, M8_STATUS, M6_VERSION], "tail": NONE, "cycle": 600 * t}  # 2400 frames, 1800 rejected
    # 50 %: strict alternation of a valid frame with each kind of rejected frame (3000 frames, 1500 rejected each)
    for m in (M8_STATUS, M6_VERSION, M6_UNKNOWN, M8_UNIMPL, M10_ACK_STRUCTLEN):
        yield "50pct-" + m[0].split(":")[1], {"items": [m, V_ACK], "tail": ["tail:incomplete", ACK[:9]], "cycle": 1500 * t}
    yield "25pct", {"items": [V_ACK, V8_ROUTING, M6_UNKNOWN, V8_CSR], "tail": NONE, "cycle": 1500}  # 6000 frames, 1500 rejected
    yield "10pct", {"items": [V_ACK] * 5 + [M8_UNIMPL] + [V8_STATUS] * 4, "tail": NONE, "cycle": 600}  # 6000 frames, 600 rejected
    yield "runs", {"items": [V_ACK + [200], M10_ACK_STRUCTLEN + [1600], V8_ROUTING + [200], M6_VERSION + [1600], V_ACK + [50]], "tail": ["tail:unreadable", _v("0000")]}


def _shard_short(ctx, case) -> None:
    run_plan(ctx, case, "exhaustive")


def _shard_generated(ctx, what: str, n: int) -> None:
    loop = asyncio.new_event_loop()
    asyncio.set_event_loop(loop)
    try:
        if what == "pairs":
            hyp_collect(ctx, streams(max_items=4, max_len=60).filter(lambda c: sum(len(i[1]) for i in c["items"]) + len(c["tail"][1]) <= 60), lambda c, x: run_plan(c, x, "pairs"), n, seed_salt=1)
        elif what == "random":
            hyp_collect(ctx, random_cases(), lambda c, x: run_plan(c, x, "random"), n, seed_salt=2)
        elif what == "udp":
            hyp_collect(ctx, udp_cases(), deliver_udp, n, seed_salt=3)
        elif what == "big":
            for case in big_cases(ctx):
                plan = Plan(case)
                deliver_tcp(ctx, plan, (), "one-chunk-3000-frames")
                half = len(plan.stream) // 2 + 3
                deliver_tcp(ctx, plan, (half,), "two-chunks-3000-frames")
        elif what == "stress":
            for label, case in stress_cases(ctx):
                plan = Plan(case)
                if not plan.usable:
                    raise AssertionError(f"stress stream {label}: parser disagrees with construction")
                deliver_tcp(ctx, plan, (), f"one-chunk-stress-malformed-{label}")
                if label in ("50pct-session-status-code", "runs"):
                    # chunk boundary inside a frame: the big part then arrives behind a buffered prefix
                    deliver_tcp(ctx, plan, (7,), f"two-chunks-stress-malformed-{label}")
        elif what == "short":
            pass
    finally:
        asyncio.set_event_loop(None)
        loop.close()


def _dispatch(ctx, kind: str, arg, n: int) -> None:
    if kind == "short":
        loop = asyncio.new_event_loop()
        asyncio.set_event_loop(loop)
        try:
            _shard_short(ctx, arg)
        finally:
            asyncio.set_event_loop(None)
            loop.close()
    else:
        _shard_generated(ctx, kind, n)


def run(ctx) -> None:
    if ctx.quick:
        # 14, 12, 14 and 12 octets: 8192 + 2048 + 8192 + 2048 boundary sets
        shorts = [SHORT_STREAMS[0], {"items": [M6_VERSION, V6_ROUTING], "tail": NONE}, SHORT_STREAMS[4], {"items": [V6_DESCR, M6_UNKNOWN], "tail": NONE}]
    else:
        shorts = SHORT_STREAMS
    jobs = [("short", c, 0) for c in shorts]
    jobs += [("pairs", None, ctx.n(6, 40)), ("pairs", None, ctx.n(6, 40))]
    jobs += [("random", None, ctx.n(200, 1500)), ("random", None, ctx.n(200, 1500))]
    jobs += [("udp", None, ctx.n(400, 3000)), ("big", None, 0), ("stress", None, 0)]
    parallel(ctx, _dispatch, jobs, procs=ctx.n(8, 16))
    ctx.notes["budget"] = f"{A_STEPS} + {B_STEPS}*octets_fed_so_far sys.monitoring steps per data_received / datagram_received call"
    if not ctx.quick:  # thorough tier only: coverage-guided campaigns, oracle inside the target
        from vk.fuzz import run_fuzz

        run_fuzz(ctx, PROPERTY, runs=FUZZ_RUNS, jobs=8)


def replay(ctx, case) -> None:
    if not isinstance(case, dict):
        return
    loop = asyncio.new_event_loop()
    asyncio.set_event_loop(loop)
    try:
        if case.get("transport") == "udp" or "datagrams" in case:
            deliver_udp(ctx, case)
        elif "items" in case:
            run_plan(ctx, case, "replay" if "cuts" in case else "random")
    finally:
        asyncio.set_event_loop(None)
        loop.close()
