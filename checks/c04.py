"""C04 - application-layer decoding is total with declared errors only.

APCI.from_knx(raw) returns an APCI object or raises ConversionError (of which
UnsupportedAPCIService is a subclass); nothing else, and within a deterministic step
budget. For a *recognised* service code (independent table vk/ref/apci_layout.py)
UnsupportedAPCIService is a violation ("malformed, not unsupported"), and a canonical
code must decode to the service the coding table names.

Domain: (a) every APDU of length 0..2 and (quick) a 1/16 stride / (thorough) all of
length 3, over a fork pool; (b) structure-aware APDUs for each of the 1024 codes
(lengths 0..40, 54..56, 100, 254, 255 x fills x random TPCI bits + per-service
field/tail boundary patterns from the table); (c) Hypothesis (structured + binary).
"""

from __future__ import annotations

import random
import sys

from xknx.cemi.cemi_frame import CEMILData
from xknx.exceptions import ConversionError, CouldNotParseCEMI, UnsupportedAPCIService, UnsupportedCEMIMessage
from xknx.telegram.apci import APCI

from vk.core import exc_site
from vk.engine import hyp_search, parallel
from vk.ref import apci_layout as T
from vk.strategies import apdus as G

PROPERTY = "C04"
LEVEL = "exploration"
TECHNIQUE = "exhaustive enumeration (short APDUs) + structure-aware generation + Hypothesis vs independent service table; line-step budget"
LEVEL_TEXT = (
    "every APDU of length 0..2 (quick) / 0..3 (thorough) decoded and judged; longer APDUs sampled structure-aware "
    "for all 1024 APCI codes: can refute, cannot establish absence beyond the enumerated lengths"
)
LEVEL_NOTE = (
    "trusted: the service/coding table in vk/ref/apci_layout.py (written from the layouts cited in the class "
    "docstrings; self-tested on literal vectors) and CPython's sys.settrace line events for the step budget"
)
RULE = (
    "exhaustive APDUs of length 0..2 (+ all or 1/16 of length 3), for each of 1024 APCI codes lengths "
    "{0..40,54..56,100,254,255} x {zeros,ones,random,ramp} x random TPCI bits + per-service field/tail boundary "
    "patterns, + Hypothesis; non-trivial = recognised service at a length other than its minimal valid length, or "
    "a decode that raised; enumerations distinct by construction, generated cases hashed"
    "; thorough tier only: atheris/libFuzzer campaigns (vk/fuzz.py, fuzz/c04_target.py; 8 processes, half from an empty corpus, half from "
    "a seed corpus of valid inputs, -runs budget, -seed derived from VERIF_SEED) with this same oracle inside the target: input = the APDU octets; each "
    "execution counts as one evaluation, it is non-trivial by the same rule (recognised service at a non-minimal length or a decode that raised, measured in the target), distinct by input hash"
)
FUZZ_RUNS = 60_000  # executions per campaign (thorough tier)
ASSUMPTIONS = [
    "a code is 'recognised' iff the reference table gives it a PDU definition (928 of 1024 codes; A_RouterStatus_* "
    "codes 0x3CD-0x3CF, undefined user/escape codes and 'response to basic restart' 0x3A0|r<<1 are not); each "
    "recognised service is cross-checked by a table-built witness APDU that must decode to the named class",
    "wrong-service is only asserted for canonical codes (reserved code bits of the A_Restart family zero)",
    "termination: every structure-aware decode (<=255 octets) runs under a line-step budget of 3000+20*len "
    "xknx line/call events (settrace), maximum observed is recorded; the exhaustive and Hypothesis passes are "
    "not traced - for them termination is covered by the enumeration itself completing",
    "the cEMI mapping (UnsupportedAPCIService -> UnsupportedCEMIMessage, ConversionError -> CouldNotParseCEMI) is "
    "sampled on group-addressed L_Data.ind frames only",
    "thorough tier: the atheris campaigns judge every execution with judge() + check_cemi(); their step budget is the "
    "sys.monitoring one of vk/budget.py (4x the settrace limit, same >= 20x headroom), a hit is bucketed C04:step-budget and "
    "re-judged under the settrace budget on replay; without atheris the tier runs without them (coverage.fuzz = unavailable)",
]


class StepBudgetExceeded(BaseException):
    pass


def traced_decode(raw: bytes, budget: int):
    """APCI.from_knx under a step budget. Returns (steps, result | exception)."""
    steps = 0

    def local(frame, event, arg):
        nonlocal steps
        if event == "line":
            steps += 1
            if steps > budget:
                raise StepBudgetExceeded
        return local

    def glob(frame, event, arg):
        nonlocal steps
        if not frame.f_globals.get("__name__", "").startswith("xknx"):
            return None
        steps += 1
        if steps > budget:
            raise StepBudgetExceeded
        return local

    old = sys.gettrace()
    sys.settrace(glob)
    try:
        try:
            res = APCI.from_knx(raw)
        except BaseException as e:  # noqa: BLE001 - handed back to the oracle
            res = e
    finally:
        sys.settrace(old)
    return steps, res


def budget_for(n: int) -> int:
    return 3000 + 20 * n


def judge(ctx, raw: bytes, res) -> str:
    """Oracle on the outcome (object or exception) of decoding `raw`."""
    apci = T.apci_of(raw) if len(raw) >= 2 else None
    if isinstance(res, BaseException):
        if isinstance(res, UnsupportedAPCIService):
            if apci is not None and T.RECOGNISED[apci]:
                ctx.fail(f"C04:unsupported-for-recognised:{T.SERVICE_OF[apci].name}", raw,
                         f"code {apci:#05x} is {T.SERVICE_OF[apci].name} (recognised) but decoding {raw.hex()} raised {res!r}")
            return "unsupported"
        if isinstance(res, ConversionError):
            return "conversion-error"
        if isinstance(res, StepBudgetExceeded):
            ctx.fail("C04:step-budget", raw, f"decoding {len(raw)} octets exceeded {budget_for(len(raw))} steps")
            return "budget"
        if isinstance(res, RecursionError):
            ctx.fail("C04:exc:RecursionError", raw, "RecursionError")
            return "exc"
        if isinstance(res, Exception):
            ctx.fail(f"C04:exc:{exc_site(res)}", raw, f"{raw.hex()} -> {res!r}")
            return "exc"
        raise res  # KeyboardInterrupt etc.
    if not isinstance(res, APCI):
        ctx.fail(f"C04:not-apci:{type(res).__name__}", raw, f"{raw.hex()} -> {res!r}")
        return "not-apci"
    if apci is not None:
        name = T.NAME_OF[apci]
        if name is not None and type(res).__name__ != name:
            ctx.fail(f"C04:wrong-service:{name}->{type(res).__name__}", raw,
                     f"code {apci:#05x} is {name}; {raw.hex()} decoded as {res!r}")
            return "wrong-service"
    return "ok"


def decode(raw: bytes):
    try:
        return APCI.from_knx(raw)
    except Exception as e:  # noqa: BLE001
        return e


def nontrivial(raw: bytes, outcome: str) -> bool:
    if outcome != "ok":
        return True
    if len(raw) < 2:
        return False
    apci = T.apci_of(raw)
    return T.RECOGNISED[apci] and len(raw) != T.min_length(apci)


# ---------------------------------------------------------------------------


def cemi_frame(apdu: bytes) -> bytes:
    """Group-addressed L_Data body (ctrl1, ctrl2, src 1.1.1, dst 1/1/1, len, TPDU) with T_Data_Group."""
    tpdu = bytes((apdu[0] & 0x03,)) + apdu[1:]
    return bytes((0xBC, 0xE0, 0x11, 0x01, 0x09, 0x01, len(tpdu) - 1)) + tpdu


def check_cemi(ctx, raw: bytes) -> None:
    """The cEMI layer reports a malformed APDU of a recognised service as not parseable,
    never as unsupported, and lets nothing else escape."""
    if not 2 <= len(raw) <= 255:
        return
    apci = T.apci_of(raw)
    try:
        CEMILData.from_knx(cemi_frame(raw))
    except UnsupportedCEMIMessage as e:
        if T.RECOGNISED[apci]:
            ctx.fail(f"C04:cemi-unsupported-for-recognised:{T.SERVICE_OF[apci].name}", raw, repr(e)[:300])
    except CouldNotParseCEMI:
        pass
    except Exception as e:  # noqa: BLE001
        ctx.fail(f"C04:cemi-exc:{exc_site(e)}", raw, repr(e)[:300])


def shard_short(ctx, shard: int) -> None:
    full = not ctx.quick
    n = nt = 0
    cls = {"ok": 0, "unsupported": 0, "conversion-error": 0}
    for raw in G.short_apdus(G.short_shard_o0s(shard), full, ctx.seed, with_empty=shard == 0):
        out = judge(ctx, raw, decode(raw))
        n += 1
        if out != "ok" or nontrivial(raw, out):
            nt += 1
        cls[out] = cls.get(out, 0) + 1
    ctx.bulk(n, nt, "short-exhaustive")
    for k, v in cls.items():
        ctx.classes[f"short:{k}"] += v
    assert n == G.short_count(len(G.short_shard_o0s(shard)), full, shard == 0)


def shard_short_range(ctx, lo: int, hi: int) -> None:
    for shard in range(lo, hi):
        shard_short(ctx, shard)


def shard_structured(ctx, lo: int, hi: int) -> None:
    max_steps = 0
    for code, raw, label in G.all_apdus(ctx.seed, range(lo, hi)):
        if label in ("zeros", "boundary", "tail-boundary", "truncated", "code-reserved"):
            steps, res = traced_decode(raw, budget_for(len(raw)))
            max_steps = max(max_steps, steps)
            ctx.classes["traced"] += 1
        else:
            res = decode(raw)
        out = judge(ctx, raw, res)
        ctx.case(raw, nontrivial(raw, out), cls=(f"gen:{label}", f"outcome:{out}"),
                 sample={"apdu": raw.hex(), "gen": label, "outcome": out} if label == "boundary" and code % 97 == 0 and len(raw) < 24 else None)
        if label in ("zeros", "boundary"):
            check_cemi(ctx, raw)
    ctx.notes[f"_max_steps:{lo}"] = str(max_steps)  # string: merged by key, reduced to the max in run()


def oracle(ctx, raw: bytes) -> None:
    out = judge(ctx, raw, decode(raw))
    ctx.case(raw, nontrivial(raw, out), cls=("hyp", f"outcome:{out}"))
    check_cemi(ctx, raw)


def check_witnesses(ctx) -> None:
    for s in T.SERVICES:
        if not s.recognised:
            continue
        got = []
        for v in (0, 1):
            w = T.witness(s, v)
            res = decode(w)
            got.append(type(res).__name__)
            ctx.case(("witness", w), True, cls="witness",
                     sample={"service": s.name, "apdu": w.hex(), "decoded": type(res).__name__} if v and s.code % 5 == 0 else None)
            judge(ctx, w, res)
        if s.name not in got:
            ctx.fail(f"C04:no-witness-decodes:{s.name}", T.witness(s, 0), f"table-valid APDUs of {s.name} decode to {got}")


def selftest(ctx) -> None:
    T.selftest()
    assert cemi_frame(b"\x00\x80") == bytes.fromhex("bce011010901010080")
    steps, res = traced_decode(b"\x00\x00", 10_000)
    assert type(res).__name__ == "GroupValueRead" and 0 < steps < 200, (steps, res)
    steps, res = traced_decode(b"\x00\x00", 1)
    assert isinstance(res, StepBudgetExceeded)


def run(ctx) -> None:
    check_witnesses(ctx)
    # few, large shards: forking is the dominant cost of the quick tier on a busy box
    jobs = ctx.n(4, 16)
    per = G.N_SHORT_SHARDS // jobs
    parallel(ctx, shard_short_range, [(i * per, (i + 1) * per) for i in range(jobs)], procs=jobs)
    parallel(ctx, shard_structured, [(i * (1024 // jobs), (i + 1) * (1024 // jobs)) for i in range(jobs)], procs=jobs)
    ks = [k for k in ctx.notes if k.startswith("_max_steps:")]
    ctx.notes["max_steps_observed"] = max(int(ctx.notes.pop(k)) for k in ks)
    hyp_search(ctx, G.apdu(), oracle, ctx.n(3000, 40000))
    ctx.exhaustive = True
    ctx.notes["exhaustive_part"] = "APDU lengths 0..2" + ("" if ctx.quick else " and 3 (16.8M)") + (
        "; length 3 strided 1/16 (every first-two-octet pair with 16 third octets)" if ctx.quick else "")
    ctx.notes["step_budget"] = "3000 + 20*len line/call events in xknx.* frames (>= 20x the maximum observed)"
    rng = random.Random(ctx.seed)
    for s, raw in list(G.valid_apdus(rng, 1))[:: max(1, len(T.SERVICES) // 5)][:6]:
        ctx.sample({"service": s.name, "valid_apdu": raw.hex()})
    if not ctx.quick:  # thorough tier only: coverage-guided campaigns, oracle inside the target
        from vk.fuzz import run_fuzz

        run_fuzz(ctx, PROPERTY, runs=FUZZ_RUNS, jobs=8)


def replay(ctx, case) -> None:
    raw = case if isinstance(case, (bytes, bytearray)) else case.get("apdu", b"")
    raw = bytes(raw)
    steps, res = traced_decode(raw, budget_for(len(raw)))
    judge(ctx, raw, res)
    check_cemi(ctx, raw)
