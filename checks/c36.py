"""C36 - registered tasks follow connection state and never run twice.

A real `TaskRegistry` (inside a real XKNX on the virtual-time loop) is driven with
generated histories of `start_task` / `remove_task` / registry `stop` / `start` /
connection state changes / time advances over a pool of `Task` objects with every
option combination (restart_after_reconnect, wait_before_start, wait_for_connection,
repeat_after, sync / async / raising targets with generated durations). Observation
points: a task factory on the loop records every asyncio task the registry creates (by
task name), the instrumented targets record enter / exit / cancel per instance, and
after every step the set of live instances per name is sampled. A small reference model
(registered?, restart flag, connection state, registry started?) states, per step, how
many new instances each task may get and which tasks must have no live instance.
"""

from __future__ import annotations

import asyncio
import itertools
import os

from hypothesis import strategies as st

from vk.core import cpu_count, exc_site
from vk.engine import hyp_search, parallel
from vk.vloop import BudgetExceeded, Deadlock, run_case
from vk.xharness import XH

PROPERTY = "C36"
LEVEL = "exploration"
TECHNIQUE = "model-based history testing (bounded exhaustive op sequences x every option combination + Hypothesis histories over task pools) of the real TaskRegistry on a virtual-time loop; instance creation observed through a loop task factory"
RULE = (
    "case = (initial connection state, 1..3 Task objects with options restart_after_reconnect x wait_before_start {0,0.5,2} x wait_for_connection x repeat_after {None,0,1,3} x target {sync, async with duration 0/0.5/2, raising}, "
    "additional target kinds: 'swallow' (async, catches CancelledError and returns after 0..3 further loop iterations; only without repeat_after) and 'rearm' (sync, calls start_task()/restart() on its own task from inside, at most 1-2 times per case); "
    "history over {start_task i, remove_task i, connection CONNECTED/DISCONNECTED/CONNECTING, flap = 2-4 connection changes without a loop iteration in between, advance 0.25..7 s, registry stop, registry start}); "
    "every option combination x every op sequence up to length 3 (quick) / 4 (thorough) from both initial connection states is enumerated for a single task, the 16 swallow / re-arm configurations x every sequence up to length 3 over those ops plus advance 0.5 s and the flap DISCONNECTED,CONNECTED, longer histories (<= 16 ops, <= 3 tasks) are sampled; "
    "a zero repeat interval is only generated together with a positive wait or target duration (otherwise a busy loop in real and virtual time); "
    "non-trivial = the history starts a task and afterwards changes the connection state, re-starts, removes or stops while that task is registered; distinct by case"
)
LEVEL_TEXT = "Generated start/remove/stop/connection histories over tasks with every option combination are run against the real registry in virtual time; after every step the number of instances created and alive per task is compared with a reference model of the statement (restart once per reconnection, not running while disconnected, replaced on re-start, cancelled on remove, nothing alive after stop)."
LEVEL_NOTE = "Virtual time, single-threaded asyncio; instance creation is observed through loop.set_task_factory and asyncio task names; a case whose loop iteration budget is exceeded is inconclusive."
ASSUMPTIONS = [
    "'a task that is already registered' is the same Task object started again (the registry keys by object; names are the caller's responsibility); a different Task object with an equal name is not generated",
    "registry start() is only called after stop() (XKNX.start/stop pairing); calling start() twice registers the connection callback twice and is treated as API misuse",
    "a restart-flagged task that the user start_task()s while disconnected runs (the statement constrains tasks registered before the change to a non-connected state); it must still be gone after the next change between non-connected states and be restarted exactly once on CONNECTED",
    "'running' = a not-done asyncio task created by the registry for that Task (sampled after the loop has settled) or an open target invocation; the cancellation of an instance is complete within the settle phase of the same step",
    "a zero repeat interval is only combined with a positive wait_before_start or target duration; BudgetExceeded/Deadlock cases are counted as inconclusive",
    "a target that re-arms its own task is a start_task()/restart() call by the user: each logged re-arm adds one expected instance in that step and the replaced instance (which then finishes normally) must be gone after the step; a target that swallows CancelledError is only generated without repeat_after (otherwise the cancelled instance lives on by the target's own doing) and its invocation counts as closed when the cancellation is delivered",
    "exceptions raised by a 'raising' target end that instance and reach the loop exception handler on collection; only other exception types count as escaped",
]

STATES = {"C": "CONNECTED", "D": "DISCONNECTED", "G": "CONNECTING"}
SETTLE = 10


class TargetBoom(Exception):
    """Raised by the 'raise' target kind."""


def busy(cfg) -> bool:
    zero_target = cfg["kind"] in ("sync", "raise", "rearm") or not cfg["dur"]
    return cfg["repeat"] == 0 and not cfg["wait"] and zero_target and cfg["kind"] != "raise"


def valid(cfg) -> bool:
    """Configurations the registry can be held responsible for."""
    if busy(cfg):
        return False
    if cfg["kind"] == "swallow":
        # a target that swallows CancelledError ends its instance only if the run loop does not
        # repeat (with repeat_after the cancelled instance would go on by the target's own doing)
        return cfg["repeat"] is None and cfg["dur"] > 0
    return True


# --------------------------------------------------------------------------- execution


def execute(case):
    from xknx.core import Task, XknxConnectionState

    obs = {"steps": [], "events": [], "op_exc": [], "created": []}
    cur = {"op": -1}

    async def scenario(loop):
        created = []  # (op, asyncio task)

        def factory(lp, coro, **kw):
            t = asyncio.Task(coro, loop=lp, **kw)
            created.append((cur["op"], t))
            return t

        h = await XH.create(loop, rate_limit=0)
        if case.get("init_conn"):
            h.connect()
        reg = h.xknx.task_registry
        tasks = []
        for i, cfg in enumerate(case["tasks"]):
            name = f"verif.task{i}"

            def make(i=i, cfg=cfg):
                def log(ev):
                    obs["events"].append((cur["op"], i, ev, id(asyncio.current_task()), loop.time()))

                if cfg["kind"] == "sync":

                    def target():
                        log("enter")
                        log("exit")

                elif cfg["kind"] == "raise":

                    def target():
                        log("enter")
                        log("exit")
                        raise TargetBoom(f"task{i}")

                elif cfg["kind"] == "rearm":
                    # retrigger pattern: the target starts its own task again (at most `rearm` times per case)
                    budget = [int(cfg.get("rearm", 1))]

                    def target():
                        log("enter")
                        if budget[0] > 0:
                            budget[0] -= 1
                            log("rearm")
                            if budget[0] % 2:
                                tasks[i].restart()
                            else:
                                reg.start_task(tasks[i])
                        log("exit")

                elif cfg["kind"] == "swallow":
                    # clean-up pattern of the repo's own test_reconnect_handling: CancelledError is
                    # caught and the target returns after `after` further loop iterations

                    async def target():
                        log("enter")
                        try:
                            await asyncio.sleep(cfg["dur"])
                        except asyncio.CancelledError:
                            log("cancel")
                            for _ in range(int(cfg.get("after", 0))):
                                await asyncio.sleep(0)
                            return
                        log("exit")

                else:

                    async def target():
                        log("enter")
                        try:
                            await asyncio.sleep(cfg["dur"])
                        except asyncio.CancelledError:
                            log("cancel")
                            raise
                        log("exit")

                return target

            tasks.append(
                Task(
                    name=name,
                    target=make(),
                    restart_after_reconnect=cfg["flag"],
                    wait_before_start=cfg["wait"],
                    wait_for_connection=cfg["wfc"],
                    repeat_after=cfg["repeat"],
                )
            )
        loop.set_task_factory(factory)

        def snapshot(k):
            per = []
            for i, t in enumerate(tasks):
                mine = [(op, a) for op, a in created if a.get_name() == t.name]
                per.append(
                    {
                        "new": sum(1 for op, _ in mine if op == k),
                        "live": sum(1 for _, a in mine if not a.done()),
                        "old_live": sum(1 for op, a in mine if op < k and not a.done()),
                        "cancelled_now": 0,
                        "registered": t in reg.tasks,
                        "done": t.done(),
                    }
                )
            obs["steps"].append(per)

        for k, op in enumerate(case["ops"]):
            cur["op"] = k
            try:
                if op[0] == "start":
                    reg.start_task(tasks[op[1]])
                elif op[0] == "remove":
                    reg.remove_task(tasks[op[1]])
                elif op[0] == "conn":
                    h.xknx.connection_manager.connection_state_changed(XknxConnectionState[STATES[op[1]]])
                elif op[0] == "flap":
                    # several connection state changes without a loop iteration in between
                    for st_ in op[1]:
                        h.xknx.connection_manager.connection_state_changed(XknxConnectionState[STATES[st_]])
                elif op[0] == "adv":
                    await asyncio.sleep(op[1])
                elif op[0] == "stop":
                    reg.stop()
                elif op[0] == "rstart":
                    reg.start()
            except Exception as e:  # noqa: BLE001
                obs["op_exc"].append((k, exc_site(e), repr(e)))
            for _ in range(SETTLE):
                await asyncio.sleep(0)
            snapshot(k)
        cur["op"] = len(case["ops"])
        reg.stop()
        for _ in range(SETTLE):
            await asyncio.sleep(0)
        snapshot(len(case["ops"]))
        loop.set_task_factory(None)
        obs["registry_left"] = len(reg.tasks)
        await h.close()

    _, loop = run_case(scenario, max_iters=150_000)
    obs["escaped"] = [(type(e["exception"]).__name__, e["repr"], e["message"]) for e in loop.escaped]
    return obs


# --------------------------------------------------------------------------- reference model + oracle


def judge(ctx, case, obs) -> None:
    inp = case
    cfgs = case["tasks"]
    n = len(cfgs)
    for k, site, rep in obs["op_exc"]:
        ctx.fail(f"C36:op-raised:{case['ops'][k][0]}:{site}", inp, f"op {k} {case['ops'][k]}: {rep}")
    for name, rep, msg in obs["escaped"]:
        if name != "TargetBoom":
            ctx.fail(f"C36:escaped:{name}", inp, f"{rep} {msg}")
    connected = bool(case.get("init_conn"))
    state = "C" if connected else "D"
    reg_started = True
    registered = [False] * n
    suppressed = [False] * n  # flagged, registered before a change to a non-connected state, not reconnected / re-started since
    quiet_from = [None] * n  # op index from which no target 'enter' is allowed (suppressed / removed / stopped)
    quiet: list[list[tuple[int, int | None, str]]] = [[] for _ in range(n)]  # closed/open quiet intervals

    def open_quiet(i, k, why):
        if quiet_from[i] is None:
            quiet_from[i] = (k, why)

    def close_quiet(i, k):
        if quiet_from[i] is not None:
            quiet[i].append((quiet_from[i][0], k, quiet_from[i][1]))
            quiet_from[i] = None

    ops = list(case["ops"]) + [["stop"]]  # the harness stops the registry at the end
    failed = set()

    def fail(bucket, detail):
        if bucket not in failed:
            failed.add(bucket)
            ctx.fail(bucket, inp, detail)

    rearms: dict = {}
    for k_, i_, ev_, _inst, _t in obs["events"]:
        if ev_ == "rearm":
            rearms[(k_, i_)] = rearms.get((k_, i_), 0) + 1
    for k, op in enumerate(ops):
        snap = obs["steps"][k]
        exp_new = [0] * n
        must_dead = [False] * n
        replace = [False] * n
        if op[0] == "start":
            i = op[1]
            exp_new[i] = 1
            replace[i] = True
            registered[i] = True
            suppressed[i] = False
            close_quiet(i, k)
        elif op[0] == "remove":
            i = op[1]
            if registered[i]:
                registered[i] = False
                suppressed[i] = False
                must_dead[i] = True
                open_quiet(i, k, "removed")
        elif op[0] in ("conn", "flap"):
            for new_state in [op[1]] if op[0] == "conn" else op[1]:
                if new_state == state:
                    continue
                state = new_state
                if reg_started:
                    for i in range(n):
                        if registered[i] and cfgs[i]["flag"]:
                            if state == "C":
                                exp_new[i] += 1
                                replace[i] = True
                                must_dead[i] = False
                                suppressed[i] = False
                                close_quiet(i, k)
                            else:
                                must_dead[i] = True
                                suppressed[i] = True
                                open_quiet(i, k, "disconnected")
        elif op[0] == "stop":
            reg_started = False
            for i in range(n):
                if registered[i]:
                    must_dead[i] = True
                    open_quiet(i, k, "stopped")
                registered[i] = False
                suppressed[i] = False
        elif op[0] == "rstart":
            reg_started = True
        for i in range(n):
            if suppressed[i]:
                must_dead[i] = True
            # a target that re-arms its own task is a start_task()/restart() call by the user
            r = rearms.get((k, i), 0)
            if r:
                exp_new[i] += r
                replace[i] = True
            s = snap[i]
            what = f"op {k} {op} task{i} {cfgs[i]}"
            if s["new"] != exp_new[i]:
                if op[0] in ("conn", "flap"):
                    rel = "restart-count" if exp_new[i] else "spurious-restart"
                elif op[0] == "start":
                    rel = "start-count"
                else:
                    rel = f"spurious-instance:{op[0]}"
                fail(f"C36:{rel}", f"{what}: {s['new']} instance(s) created, reference {exp_new[i]}")
            if replace[i] and s["old_live"]:
                rel = "start_task" if op[0] == "start" else "reconnect"
                fail(f"C36:old-instance-alive:{rel}", f"{what}: {s['old_live']} earlier instance(s) still alive next to the new one")
            if s["live"] > 1:
                fail("C36:two-live-instances", f"{what}: {s['live']} live instances")
            if must_dead[i] and s["live"]:
                why = "removed" if op[0] == "remove" else ("stopped" if op[0] == "stop" else "disconnected")
                fail(f"C36:alive:{why}", f"{what}: {s['live']} live instance(s) although the task is {why}")
            if s["registered"] != registered[i]:
                fail("C36:registry-membership", f"{what}: in registry={s['registered']}, reference {registered[i]}")
    if obs.get("registry_left"):
        fail("C36:registry-not-empty-after-stop", f"{obs['registry_left']} task(s) left in the registry after stop()")
    # target invocations: never concurrent, none inside a quiet interval
    for i in range(n):
        close_quiet(i, len(ops) + 1)
    open_inst: dict[int, set] = {i: set() for i in range(n)}
    for k, i, ev, inst, t in obs["events"]:
        if ev == "rearm":
            continue
        if ev == "enter":
            if open_inst[i]:
                fail("C36:target-concurrent", f"task{i} {cfgs[i]}: target entered at op {k} t={t} while another invocation was open")
            open_inst[i].add(inst)
            for a, b, why in quiet[i]:
                if a <= k < b:
                    fail(f"C36:target-ran:{why}", f"task{i} {cfgs[i]}: target invoked during op {k} (t={t}) although {why} since op {a}")
        else:
            open_inst[i].discard(inst)


def classify(case):
    started = set()
    nontrivial = False
    cls = set()
    for op in case["ops"]:
        if op[0] == "start":
            if op[1] in started:
                nontrivial = True
                cls.add("re-start")
            started.add(op[1])
        elif started and op[0] in ("conn", "flap", "remove", "stop"):
            if op[0] != "remove" or op[1] in started:
                nontrivial = True
                cls.add(op[0])
    for c in case["tasks"]:
        cls.add("flag" if c["flag"] else "noflag")
        cls.add(f"target-{c['kind']}")
        if c["repeat"] is not None:
            cls.add("repeating")
    return nontrivial, sorted(cls)


def check_case(ctx, case) -> None:
    try:
        obs = execute(case)
    except (BudgetExceeded, Deadlock):
        ctx.notes["inconclusive"] = ctx.notes.get("inconclusive", 0) + 1
        return
    except Exception as e:  # noqa: BLE001
        ctx.fail(f"C36:scenario-exc:{exc_site(e)}", case, repr(e))
        return
    judge(ctx, case, obs)


def selftest(ctx) -> None:
    assert busy({"kind": "sync", "dur": 0, "repeat": 0, "wait": 0})
    assert not busy({"kind": "async", "dur": 0.5, "repeat": 0, "wait": 0})
    assert not busy({"kind": "sync", "dur": 0, "repeat": 0, "wait": 0.5})
    assert len(all_configs()) == 2 * 2 * 2 * 3 * 3 - 4
    assert not valid({"kind": "swallow", "dur": 0.5, "repeat": 1, "wait": 0}) and valid({"kind": "swallow", "dur": 0.5, "repeat": None, "wait": 0})
    assert busy({"kind": "rearm", "dur": 0, "repeat": 0, "wait": 0})


# --------------------------------------------------------------------------- generation


def all_configs():
    out = []
    for flag, wait, wfc, repeat, (kind, dur) in itertools.product(
        (False, True), (0, 0.5), (False, True), (None, 0, 1), (("sync", 0), ("async", 0.5), ("raise", 0))
    ):
        cfg = {"flag": flag, "wait": wait, "wfc": wfc, "repeat": repeat, "kind": kind, "dur": dur}
        if not busy(cfg):
            out.append(cfg)
    return out


ENUM_OPS = [["start", 0], ["remove", 0], ["conn", "C"], ["conn", "D"], ["adv", 1.0], ["stop"]]
ENUM_OPS2 = ENUM_OPS + [["adv", 0.5], ["flap", ["D", "C"]]]


def special_configs():
    """Targets that finish normally after having been replaced: swallowed cancel, self re-arm."""
    out = []
    for flag, wfc in itertools.product((False, True), (False, True)):
        for wait, after in ((0, 0), (0.5, 1)):
            out.append({"flag": flag, "wait": wait, "wfc": wfc, "repeat": None, "kind": "swallow", "dur": 0.5, "after": after})
        for repeat in (None, 1):
            out.append({"flag": flag, "wait": 0.5, "wfc": wfc, "repeat": repeat, "kind": "rearm", "dur": 0, "rearm": 1})
    return out


def _enum2_shard(ctx, L: int, part: int, parts: int) -> None:
    n = nt = 0
    for ci, cfg in enumerate(special_configs()):
        if ci % parts != part:
            continue
        for init in (False, True):
            for length in range(1, L + 1):
                for ops in itertools.product(ENUM_OPS2, repeat=length):
                    if ops[0][0] in ("remove",):
                        continue
                    case = {"init_conn": init, "tasks": [cfg], "ops": [list(o) for o in ops]}
                    check_case(ctx, case)
                    n += 1
                    if classify(case)[0]:
                        nt += 1
                    if n % 499 == 7:
                        ctx.sample(case)
    ctx.bulk(n, nt, f"enum-special-L<={L}")


def _enum_shard(ctx, L: int, part: int, parts: int) -> None:
    cfgs = all_configs()
    n = nt = 0
    for ci, cfg in enumerate(cfgs):
        if ci % parts != part:
            continue
        for init in (False, True):
            for length in range(1, L + 1):
                for ops in itertools.product(ENUM_OPS, repeat=length):
                    if ops[0][0] in ("remove",):
                        continue  # symmetric to the empty prefix
                    case = {"init_conn": init, "tasks": [cfg], "ops": [list(o) for o in ops]}
                    check_case(ctx, case)
                    n += 1
                    if classify(case)[0]:
                        nt += 1
                    if n % 499 == 7:
                        ctx.sample(case)
    ctx.bulk(n, nt, f"enum-L<={L}")


_cfg = st.fixed_dictionaries(
    {
        "flag": st.booleans(),
        "wait": st.sampled_from([0, 0, 0.5, 2]),
        "wfc": st.booleans(),
        "repeat": st.sampled_from([None, None, 0, 1, 3]),
        "kind": st.sampled_from(["sync", "async", "async", "raise", "swallow", "rearm"]),
        "dur": st.sampled_from([0, 0.5, 2]),
        "after": st.sampled_from([0, 1, 3]),
        "rearm": st.sampled_from([1, 2]),
    }
).filter(valid)


@st.composite
def cases(draw):
    tasks = draw(st.lists(_cfg, min_size=1, max_size=3))
    n = len(tasks)
    idx = st.integers(0, n - 1)
    op = st.one_of(
        st.tuples(st.just("start"), idx),
        st.tuples(st.just("start"), idx),
        st.tuples(st.just("remove"), idx),
        st.tuples(st.just("conn"), st.sampled_from(["C", "D", "C", "D", "G"])),
        st.tuples(st.just("conn"), st.sampled_from(["C", "D", "C", "D", "G"])),
        st.tuples(st.just("adv"), st.sampled_from([0.25, 0.5, 1.0, 2.5, 7.0])),
        st.tuples(st.just("stop")),
        st.tuples(st.just("flap"), st.lists(st.sampled_from(["C", "D", "G"]), min_size=2, max_size=4)),
    )
    raw = draw(st.lists(op, min_size=1, max_size=16))
    ops = []
    stopped = False
    for o in raw:
        ops.append(list(o))
        if o[0] == "flap":
            ops[-1][1] = list(o[1])
        if o[0] == "stop":
            if stopped:
                ops[-1] = ["rstart"]
                stopped = False
            else:
                stopped = True
    return {"init_conn": draw(st.booleans()), "tasks": tasks, "ops": ops}


def _hyp_oracle(ctx, case) -> None:
    check_case(ctx, case)
    nt, cls = classify(case)
    ctx.case(repr(case), nontrivial=nt, cls=cls + [f"tasks={len(case['tasks'])}"], sample=case if len(case["ops"]) >= 8 else None)


def _hyp_shard(ctx, n: int) -> None:
    hyp_search(ctx, cases(), _hyp_oracle, n, shrink_cap_s=5.0 if ctx.quick else 30.0)



def _probe_same_name() -> int:
    """Observation only (not judged): live instances after start_task of two *different*
    Task objects that share one name. The registry keys by object, so both run."""
    from xknx.core import Task

    async def scenario(loop):
        h = await XH.create(loop, rate_limit=0)

        async def target():
            await asyncio.sleep(100)

        a = Task(name="verif.same", target=target)
        b = Task(name="verif.same", target=target)
        h.xknx.task_registry.start_task(a)
        h.xknx.task_registry.start_task(b)
        await asyncio.sleep(1)
        live = sum(1 for t in asyncio.all_tasks() if t.get_name() == "verif.same" and not t.done())
        await h.close()
        return live

    live, _ = run_case(scenario, max_iters=50_000)
    return live


def _procs(want: int = 8) -> int:
    """Pool size: scheduling only (shards and seeds are the same for every pool size).
    On a saturated machine the fork pool costs several times the sequential run."""
    try:
        load = os.getloadavg()[0]
    except OSError:
        load = 0.0
    return want if load < cpu_count() else 1

def run(ctx) -> None:
    L = ctx.n(3, 4)
    parts = 8
    parallel(ctx, _enum_shard, [(L, p, parts) for p in range(parts)], procs=_procs())
    parallel(ctx, _enum2_shard, [(3, p, parts) for p in range(parts)], procs=_procs())
    parallel(ctx, _hyp_shard, [(ctx.n(250, 2500),)] * 8, procs=_procs())
    ctx.notes["exhaustive_op_sequences_up_to"] = L
    ctx.notes["option_combinations"] = len(all_configs()) + len(special_configs())
    ctx.notes["observation_live_instances_two_task_objects_same_name"] = _probe_same_name()
    ctx.exhaustive = False


def replay(ctx, case) -> None:
    check_case(ctx, case)
