"""C05 - decoded application PDUs re-encode to the same octets (reserved bits aside).

For every APDU x the decoder accepts and whose object o re-encodes (y = o.to_knx()):
len(y) == len(x); x and y agree on every bit the reference table does not mark reserved
(the six TPCI bits of octet 0 are ignored); o.calculated_length() == len(y) - 1 (the NPDU
length CEMILData.to_knx writes); APCI.from_knx(y) == o.

Same input space as C04 (vk/strategies/apdus.py); reserved bits come from the independent
layout table vk/ref/apci_layout.py.
"""

from __future__ import annotations

from xknx.telegram.apci import APCI

from vk.core import exc_site
from vk.engine import hyp_search, parallel
from vk.ref import apci_layout as T
from vk.strategies import apdus as G

PROPERTY = "C05"
LEVEL = "exploration"
TECHNIQUE = "exhaustive enumeration (short APDUs) + structure-aware generation + Hypothesis; decode/encode round trip vs independent reserved-bit table"
LEVEL_TEXT = (
    "decode->encode->decode compared bit-for-bit against a per-service reserved-bit mask on every accepted APDU of "
    "length 0..2 (quick) / 0..3 (thorough) and on structure-aware samples for all 1024 codes; sampled beyond that"
)
LEVEL_NOTE = (
    "trusted: reserved-bit table vk/ref/apci_layout.py (from the layouts cited in the class docstrings / Appendix A of "
    "DESIGN.md, self-tested on literal vectors); dataclass __eq__ of the service objects is the equality of the property"
)
RULE = (
    "C04 input space (exhaustive lengths 0..2 + all or 1/16 of length 3; 1024 codes x lengths x fills + field/tail "
    "boundary patterns; table-valid APDUs; Hypothesis); a case is evaluated by the round-trip oracle only if the "
    "decoder accepts it and the object re-encodes; non-trivial = such a case with a reserved bit set or longer than "
    "the service's minimal valid length"
)
ASSUMPTIONS = [
    "reserved bits per service are those of vk/ref/apci_layout.py (TPCI bits; low six bits of octet 1 for "
    "A_GroupValue_Read / IndividualAddress_* / GroupValue_Write|Response with data octets; A_Restart bits 4-1; "
    "A_Authorize_Request octet 2; trailing octets of A_IndividualAddressSerialNumber_Response/Write; A_Link_Read / "
    "A_Link_Write flag octet; max_nr_of_elem high nibble of A_PropertyDescription_Response; bit 6 of the PDT octet of "
    "A_PropertyExtDescription_Response; low nibble of octet 5 of A_SystemNetworkParameter_*); a code the table does "
    "not know has no reserved bits (strict)",
    "an accepted APDU whose object refuses to_knx() (e.g. FilterTable*/RouterMemory* number 0/255, "
    "MemoryExtended* count > 250) is outside the property ('can be encoded again') and only counted",
    "calculated_length() is compared with len(to_knx()) - 1, the value CEMILData.to_knx writes as NPDU length",
]


def check(ctx, raw: bytes) -> tuple[str, bool]:
    """Round-trip oracle. Returns (outcome label, non-trivial?)."""
    try:
        o = APCI.from_knx(raw)
    except Exception:  # noqa: BLE001 - rejection is C04's business
        return "rejected", False
    name = type(o).__name__
    try:
        y = o.to_knx()
    except Exception as e:  # noqa: BLE001 - "can be encoded again" does not hold: outside the property
        return f"reencode-refused:{name}:{type(e).__name__}", False
    n = len(raw)
    apci = T.apci_of(raw)
    mask = T.reserved_mask(apci, n)
    if len(y) != n:
        ctx.fail(f"C05:length:{name}", raw, f"{raw.hex()} ({n} octets) -> {o!r} -> {bytes(y).hex()} ({len(y)} octets)")
    else:
        for i in range(n):
            if (raw[i] ^ y[i]) & ~mask[i] & 0xFF:
                ctx.fail(f"C05:bits:{name}", raw,
                         f"{raw.hex()} -> {o!r} -> {bytes(y).hex()}: octet {i} differs in non-reserved bits "
                         f"{(raw[i] ^ y[i]) & ~mask[i] & 0xFF:#04x} (reserved mask {mask.hex()})")
                break
    try:
        cl = o.calculated_length()
    except Exception as e:  # noqa: BLE001
        ctx.fail(f"C05:calclen-exc:{name}:{type(e).__name__}", raw, repr(e))
    else:
        if cl != len(y) - 1:
            ctx.fail(f"C05:calclen:{name}", raw, f"{o!r}: calculated_length()={cl}, encoded APDU has {len(y)} octets (NPDU length {len(y) - 1})")
    try:
        o2 = APCI.from_knx(bytes(y))
    except Exception as e:  # noqa: BLE001
        ctx.fail(f"C05:redecode-exc:{name}", raw, f"{raw.hex()} -> {o!r} -> {bytes(y).hex()} -> {e!r} [{exc_site(e)}]")
    else:
        if not (o2 == o) or type(o2) is not type(o):
            ctx.fail(f"C05:redecode-neq:{name}", raw, f"{raw.hex()} -> {o!r} -> {bytes(y).hex()} -> {o2!r}")
    ml = T.min_length(apci)
    nontrivial = (ml is not None and n > ml) or any(raw[i] & mask[i] for i in range(1, n))
    return "roundtrip", nontrivial


def shard_short(ctx, shard: int) -> None:
    full = not ctx.quick
    n = rt = nt = 0
    cls: dict[str, int] = {}
    for raw in G.short_apdus(G.short_shard_o0s(shard), full, ctx.seed, with_empty=shard == 0):
        out, non = check(ctx, raw)
        n += 1
        if out == "roundtrip":
            rt += 1
            nt += non
        else:
            cls[out] = cls.get(out, 0) + 1
    # only accepted + re-encodable APDUs are evaluations of this property
    ctx.bulk(rt, nt, "short:roundtrip")
    for k, v in cls.items():
        ctx.classes[f"short:{k}"] += v
    ctx.notes["inputs_offered"] = ctx.notes.get("inputs_offered", 0) + n


def shard_short_range(ctx, lo: int, hi: int) -> None:
    for shard in range(lo, hi):
        shard_short(ctx, shard)


def shard_structured(ctx, lo: int, hi: int) -> None:
    n = 0
    for code, raw, label in G.all_apdus(ctx.seed, range(lo, hi)):
        n += 1
        out, non = check(ctx, raw)
        if out == "roundtrip":
            ctx.case(raw, non, cls=(f"gen:{label}", "roundtrip"),
                     sample={"apdu": raw.hex(), "gen": label} if label == "boundary" and non and (n % 97 == 0) else None)
        else:
            ctx.classes[out if out != "rejected" else "gen:rejected"] += 1
    ctx.notes["inputs_offered"] = ctx.notes.get("inputs_offered", 0) + n


def oracle(ctx, raw: bytes) -> None:
    out, non = check(ctx, raw)
    if out == "roundtrip":
        ctx.case(raw, non, cls=("hyp", "roundtrip"))
    else:
        ctx.classes["hyp:" + out.split(":")[0]] += 1
    ctx.notes["inputs_offered"] = ctx.notes.get("inputs_offered", 0) + 1


def run_valid(ctx) -> None:
    import random

    rng = random.Random(ctx.seed * 31 + 7)
    n = 0
    for s, raw in G.valid_apdus(rng, ctx.n(20, 200)):
        for tp in (0, 0x3F):
            x = G.with_tpci(raw, tp)
            out, non = check(ctx, x)
            n += 1
            if out == "roundtrip":
                ctx.case(x, non, cls=("valid", "roundtrip"), sample={"service": s.name, "apdu": x.hex()} if n % 211 == 1 else None)
            else:
                ctx.classes["valid:" + out] += 1
        # every reserved bit of the valid APDU set, one at a time
        mask = T.reserved_mask(T.apci_of(raw), len(raw))
        for i in range(1, len(raw)):
            for b in range(8):
                if mask[i] >> b & 1:
                    x = raw[:i] + bytes((raw[i] | (1 << b),)) + raw[i + 1:]
                    out, non = check(ctx, x)
                    n += 1
                    if out == "roundtrip":
                        ctx.case(x, True, cls=("reserved-bit-set", "roundtrip"))
                    else:
                        ctx.classes["reserved-bit-set:" + out] += 1
    ctx.notes["inputs_offered"] = ctx.notes.get("inputs_offered", 0) + n


def selftest(ctx) -> None:
    T.selftest()


def run(ctx) -> None:
    run_valid(ctx)
    # few, large shards: forking is the dominant cost of the quick tier on a busy box
    jobs = ctx.n(4, 16)
    per = G.N_SHORT_SHARDS // jobs
    parallel(ctx, shard_short_range, [(i * per, (i + 1) * per) for i in range(jobs)], procs=jobs)
    parallel(ctx, shard_structured, [(i * (1024 // jobs), (i + 1) * (1024 // jobs)) for i in range(jobs)], procs=jobs)
    hyp_search(ctx, G.apdu(), oracle, ctx.n(3000, 40000))
    ctx.exhaustive = True
    ctx.notes["exhaustive_part"] = "accepted APDUs of length 0..2" + (" and 3" if not ctx.quick else "; length 3 strided 1/16")


def replay(ctx, case) -> None:
    raw = case if isinstance(case, (bytes, bytearray)) else case.get("apdu", b"")
    check(ctx, bytes(raw))
