"""C34 - telegram callbacks see exactly the telegrams they subscribed to.

Histories of register / unregister / telegram operations are generated as data and run
against a real XKNX (started telegram queue, stub interface) on the virtual-time loop next
to a reference model: registrations carry address filters of the documented grammar
(structured patterns judged by vk/ref/addrfilter.py, 'i-' internal globs judged by the
reference glob), explicit address lists incl. internal addresses, the outgoing flag, a
raising behaviour and optionally "unregister myself when called". Telegrams are incoming
(queue or full cEMI receive path), outgoing, to group or internal addresses, with different
APCI services. Every telegram carries a unique source address so that each callback
invocation can be attributed to exactly one telegram.
"""

from __future__ import annotations

import asyncio
from collections import Counter

from hypothesis import strategies as st

from vk.core import exc_site
from vk.engine import hyp_search, parallel
from vk.ref import addrfilter as R
from vk.vloop import BudgetExceeded, Deadlock, run_case

PROPERTY = "C34"
LEVEL = "exploration"
TECHNIQUE = "property-based testing (Hypothesis) of generated registration/telegram histories on a real XKNX in virtual time vs independent reference matcher"
RULE = (
    "case = (notation 1-3 levels, optional Switch on one address, 0-2 devices whose write/response processing raises, ops: reg{filters, address list, outgoing flag, raising, self-unregistering} | unreg | "
    "telegram{destination group/internal address near the registered ones, incoming via queue / incoming via cEMI / outgoing, write/response/read}); "
    "non-trivial = at least one telegram for which some filtered registration is expected to be called and another registration is expected not to be called; distinct by case"
)
LEVEL_TEXT = (
    "Generated registration and telegram histories were run through the real telegram queue; every callback invocation was attributed to one telegram "
    "and compared with a reference matcher written from the property statement (exactly once if registered and matching, outgoing only on request, never otherwise), "
    "including raising callbacks followed by further callbacks and a Switch device. A generated search can refute the property, not prove it."
)
LEVEL_NOTE = "Trusted base: vk/ref/addrfilter.py (structured pattern matcher, reference glob). Stub interface confirms every frame; filters are evaluated in the notation with the same number of levels."
ASSUMPTIONS = [
    "address filters are generated in the notation that is active (same number of levels), as in C02",
    "a registration gives either no address_filters/group_addresses argument at all (None) or non-empty lists; explicit empty lists are not generated (the statement is silent on them)",
    "registrations change only while the queue is idle (the history joins the queue before register/unregister); with self-unregistering callbacks the queue is joined after every telegram",
    "a callback unregistered or registered by another callback while a telegram is being dispatched is not judged for that telegram; every callback that stays registered is",
    "destination 0 (broadcast, handled by management, not a group telegram) is not generated",
    "raising devices (a Switch subclass whose process_group_write raises ConversionError / ValueError, on pool addresses) are part of the domain: callbacks must be called whatever a device does with the telegram; what the other devices behind a raising device on the same address do is not judged",
    "raising callbacks raise Exception subclasses (ValueError, RuntimeError, xknx ConversionError), not BaseException",
    "'processed telegram' = telegram taken from xknx.telegrams whose send (if outgoing to a group address) succeeded; the stub interface confirms every frame here, failing sends belong to C33",
]

BASE_SRC = 0x1100
EXCS = ("ValueError", "RuntimeError", "ConversionError")
GLOBS = ["test", "t?st", "t*t", "*", "t*", "?b", "a*", "*1", "??", "tes?", "*st"]
NAMES = ["test", "tst", "t1", "ab", "a", "best", "tt", "a1"]


def _fmt(nl: int):
    from xknx.telegram.address import GroupAddressType

    return {3: GroupAddressType.LONG, 2: GroupAddressType.SHORT, 1: GroupAddressType.FREE}[nl]


# --------------------------------------------------------------------------- reference
def ref_addr_match(spec, dst, nl: int) -> bool:
    """Does destination `dst` (int raw group address | 'i-name') match registration `spec`?"""
    f, g = spec.get("f"), spec.get("g")
    if f is None and g is None:
        return True
    for pat in f or ():
        if isinstance(pat, str):  # internal glob (without the 'i-' prefix)
            if isinstance(dst, str) and R.glob_match(pat, dst[2:]):
                return True
        elif isinstance(dst, int) and R.match(pat, dst):  # structured pattern: list of levels
            return True
    for a in g or ():
        if a == dst and isinstance(a, str) == isinstance(dst, str):
            return True
    return False


def ref_called(spec, tg, nl: int) -> bool:
    if tg["dir"] == "out" and not spec.get("out"):
        return False
    return ref_addr_match(spec, tg["dst"], nl)


def selftest(ctx) -> None:
    R.selftest()
    p3 = [[["n", 1]], [["*"]], [["r", 2, 5]]]
    assert ref_addr_match({"f": [p3]}, R.join((1, 7, 3), 3), 3)
    assert not ref_addr_match({"f": [p3]}, R.join((1, 7, 6), 3), 3)
    assert not ref_addr_match({"f": [p3]}, "i-test", 3)
    assert ref_addr_match({"f": ["t?st"]}, "i-test", 3) and not ref_addr_match({"f": ["t?st"]}, "i-tst", 3)
    assert ref_addr_match({"g": [5, "i-a"]}, "i-a", 3) and ref_addr_match({"g": [5, "i-a"]}, 5, 3) and not ref_addr_match({"g": [5]}, 6, 3)
    assert ref_addr_match({}, 7, 3) and ref_addr_match({"f": None, "g": None}, "i-x", 3)
    assert not ref_called({"out": False}, {"dir": "out", "dst": 7}, 3) and ref_called({"out": True}, {"dir": "out", "dst": 7}, 3)
    assert ref_called({"out": True}, {"dir": "in", "dst": 7}, 3) and ref_called({"out": False}, {"dir": "ind", "dst": 7}, 3)


# --------------------------------------------------------------------------- execution
def _mk_addr(a):
    from xknx.telegram.address import GroupAddress, InternalGroupAddress

    return InternalGroupAddress(a) if isinstance(a, str) else GroupAddress(a)


def _mk_payload(apci: str):
    from xknx.dpt import DPTArray, DPTBinary
    from xknx.telegram.apci import GroupValueRead, GroupValueResponse, GroupValueWrite

    if apci == "w0":
        return GroupValueWrite(DPTBinary(0))
    if apci == "w1":
        return GroupValueWrite(DPTBinary(1))
    if apci == "wa":
        return GroupValueWrite(DPTArray((0x12, 0x34)))
    if apci == "r0":
        return GroupValueResponse(DPTBinary(0))
    if apci == "r1":
        return GroupValueResponse(DPTBinary(1))
    return GroupValueRead()


def model(case, obs=None):
    """Reference: per telegram the set of callbacks that must be called and the set registered at that time.

    A self-unregistering ("once") callback leaves the registered set after the telegram for which it
    was actually invoked (`obs`: Counter of observed (callback, telegram) calls; None = assume it ran
    when it should), so that one missed call is reported once and not again as a later 'unexpected call'."""
    nl = case["nl"]
    active: dict[int, dict] = {}
    specs: list[dict] = []
    tgs: list[dict] = []
    must: list[set] = []
    unjudged: list[set] = []
    active_at: list[set] = []
    for op in case["ops"]:
        if op[0] == "reg":
            active[len(specs)] = op[1]
            specs.append(op[1])
        elif op[0] == "unreg":
            if specs:
                active.pop(op[1] % len(specs), None)
        elif op[0] == "tg":
            tg = op[1]
            exp = {k for k, s in active.items() if ref_called(s, tg, nl)}
            gone = {k for k in exp if specs[k].get("once") and (obs is None or obs.get((k, len(tgs)), 0) > 0)}
            tgs.append(tg)
            must.append(exp)
            unjudged.append(set())
            active_at.append(set(active))
            for k in gone:
                active.pop(k)
    return specs, tgs, must, unjudged, active_at


def execute(case):
    from xknx.devices import Switch
    from xknx.exceptions import ConversionError
    from xknx.telegram import AddressFilter, IndividualAddress, Telegram, TelegramDirection
    from xknx.telegram.address import GroupAddress

    nl = case["nl"]
    serial = any(op[0] == "reg" and op[1].get("once") for op in case["ops"])
    exc_types = {"ValueError": ValueError, "RuntimeError": RuntimeError, "ConversionError": ConversionError}
    calls: list[tuple[int, int]] = []
    dev_calls: list[tuple[int, object]] = []
    errors: list[str] = []
    saved_fmt = GroupAddress.address_format

    async def scenario(loop):
        from vk.xharness import XH

        h = await XH.create(loop, address_format=_fmt(nl), rate_limit=0)
        h.connect()
        tq = h.xknx.telegram_queue
        handles: dict[int, object] = {}
        nreg = 0
        ntg = 0

        async def join() -> bool:
            try:
                await asyncio.wait_for(h.xknx.telegrams.join(), 120)
                return True
            except TimeoutError:
                errors.append("stalled")
                return False

        for j, rd in enumerate(case.get("rdevs") or ()):
            # a device whose processing of a write / response raises (e.g. a value it cannot convert)
            class RaisingSwitch(Switch):
                _exc = exc_types[rd["exc"]]

                def process_group_write(self, telegram):
                    raise self._exc("device cannot process this value")

            h.xknx.devices.async_add(RaisingSwitch(h.xknx, f"raising{j}", group_address=_mk_addr(rd["addr"])))
        if case.get("dev") is not None:
            sw = Switch(h.xknx, "sw", group_address=_mk_addr(case["dev"]))
            orig = sw.process

            def rec_process(telegram):
                try:
                    return orig(telegram)
                finally:
                    dev_calls.append((telegram.source_address.raw - BASE_SRC, sw.state))

            sw.process = rec_process  # type: ignore[method-assign]
            h.xknx.devices.async_add(sw)

        def make_cb(k: int, spec: dict):
            def cb(telegram):
                calls.append((k, telegram.source_address.raw - BASE_SRC))
                if spec.get("once") and handles[k] in tq.telegram_received_cbs:
                    tq.unregister_telegram_received_cb(handles[k])
                if spec.get("exc"):
                    raise exc_types[spec["exc"]]("boom")

            return cb

        ok = True
        for op in case["ops"]:
            if not ok:
                break
            if op[0] == "reg":
                ok = await join()
                spec = op[1]
                filters = None
                if spec.get("f") is not None:
                    filters = [AddressFilter("i-" + p) if isinstance(p, str) else AddressFilter(R.render(p)) for p in spec["f"]]
                gas = None if spec.get("g") is None else [_mk_addr(a) for a in spec["g"]]
                handles[nreg] = tq.register_telegram_received_cb(make_cb(nreg, spec), address_filters=filters, group_addresses=gas, match_for_outgoing=bool(spec.get("out")))
                nreg += 1
            elif op[0] == "unreg":
                ok = await join()
                if nreg:
                    hd = handles[op[1] % nreg]
                    if hd in tq.telegram_received_cbs:
                        tq.unregister_telegram_received_cb(hd)
            elif op[0] == "tg":
                tg = op[1]
                src = IndividualAddress(BASE_SRC + ntg)
                ntg += 1
                t = Telegram(destination_address=_mk_addr(tg["dst"]), payload=_mk_payload(tg["apci"]), source_address=src)
                if tg["dir"] == "ind":
                    h.inject_ind(t, src=str(src))
                elif tg["dir"] == "in":
                    t.direction = TelegramDirection.INCOMING
                    h.xknx.telegrams.put_nowait(t)
                else:
                    t.direction = TelegramDirection.OUTGOING
                    h.xknx.telegrams.put_nowait(t)
                if serial:
                    ok = await join()
        if ok:
            ok = await join()
        sent = len(h.stub.sent)
        if ok:
            try:
                await asyncio.wait_for(h.close(), 200)
            except TimeoutError:
                errors.append("stop-stalled")
        h.xknx.started.clear()
        return sent

    try:
        sent, loop = run_case(scenario, max_iters=300_000)
    finally:
        GroupAddress.address_format = saved_fmt
    return calls, dev_calls, errors, loop.escaped, sent


def _match_kind(spec) -> str:
    if spec.get("f") is None and spec.get("g") is None:
        return "match-all"
    kinds = []
    if spec.get("f"):
        kinds.append("filter")
    if spec.get("g"):
        kinds.append("address-list")
    return "+".join(kinds)


def judge(ctx, case, calls, dev_calls, errors, escaped) -> bool:
    """Returns True when the case was non-trivial."""
    nl = case["nl"]
    obs = Counter(calls)
    specs, tgs, must, _unjudged, active_at = model(case, obs)
    for e in errors:
        ctx.fail(f"C34:queue-{e}", case, "xknx.telegrams.join() / stop() did not return within 120 virtual seconds")
    for e in escaped:
        ctx.fail(f"C34:escaped:{type(e['exception']).__name__}", case, e["repr"] + " " + e["message"])
    if errors:
        return False
    rdev_addrs = [rd["addr"] for rd in case.get("rdevs") or ()]

    def device_raises(tg) -> bool:
        return tg["apci"] != "rd" and any(a == tg["dst"] and isinstance(a, str) == isinstance(tg["dst"], str) for a in rdev_addrs)

    for i, tg in enumerate(tgs):
        raisers = sorted(k for k in must[i] if specs[k].get("exc"))
        oncers = sorted(k for k in must[i] if specs[k].get("once") and obs.get((k, i), 0) > 0)
        for k, spec in enumerate(specs):
            n = obs.get((k, i), 0)
            exp = 1 if k in must[i] else 0
            if n == exp:
                continue
            dirn = "outgoing" if tg["dir"] == "out" else "incoming"
            if n < exp:
                if device_raises(tg):
                    # callbacks must see the telegram whatever a device on that address does with it
                    cause = f"after-raising-device:{dirn}"
                elif any(r < k for r in oncers):
                    cause = "after-self-unregistering-callback"
                elif any(r < k for r in raisers):
                    cause = "after-raising-callback"
                else:
                    cause = f"{_match_kind(spec)}:{dirn}:{'internal' if isinstance(tg['dst'], str) else 'group'}"
                ctx.fail(f"C34:missed-call:{cause}", case, f"telegram #{i} {tg}: callback #{k} {spec} registered and matching, called {n} times")
            elif exp == 1:
                ctx.fail("C34:called-more-than-once", case, f"telegram #{i} {tg}: callback #{k} called {n} times")
            else:
                if k not in active_at[i]:
                    cause = "not-registered"
                elif tg["dir"] == "out" and not spec.get("out"):
                    cause = "outgoing-not-requested"
                else:
                    cause = f"no-match:{_match_kind(spec)}:{'internal' if isinstance(tg['dst'], str) else 'group'}"
                ctx.fail(f"C34:unexpected-call:{cause}", case, f"telegram #{i} {tg}: callback #{k} {spec} called {n} times, reference says never")
    for k, i in obs:
        if not (0 <= i < len(tgs)) or not (0 <= k < len(specs)):
            ctx.fail("C34:unexpected-call:unknown-telegram", case, f"callback #{k} called with a telegram that was never queued (source offset {i})")
    # device processing
    dev = case.get("dev")
    if dev is not None:
        dobs = Counter(i for i, _ in dev_calls)
        state_after = {}
        for i, s in dev_calls:
            state_after.setdefault(i, s)
        for i, tg in enumerate(tgs):
            exp = 1 if (tg["dst"] == dev and isinstance(tg["dst"], str) == isinstance(dev, str)) else 0
            n = dobs.get(i, 0)
            if exp and device_raises(tg):
                continue  # another device on this address raises: the statement says nothing about the devices behind it
            if n < exp:
                cause = "after-raising-callback" if any(specs[k].get("exc") for k in must[i]) else "plain"
                ctx.fail(f"C34:device-not-processed:{cause}", case, f"telegram #{i} {tg}: the Switch on {dev} did not process it")
            elif n > exp:
                ctx.fail("C34:device-processed-unexpected", case, f"telegram #{i} {tg}: the Switch on {dev} processed it {n} times, expected {exp}")
            elif exp and tg["apci"] in ("w0", "w1", "r0", "r1"):
                want = tg["apci"][1] == "1"
                if state_after.get(i) is not want:
                    ctx.fail("C34:device-state", case, f"telegram #{i} {tg}: Switch state after processing {state_after.get(i)!r}, expected {want}")
    # non-trivial: some telegram selects a filtered registration and rejects another
    for i in range(len(tgs)):
        act = active_at[i]
        if any(_match_kind(specs[k]) != "match-all" for k in must[i]) and (act - must[i]):
            return True
    return False


def check_case(ctx, case) -> bool:
    try:
        calls, dev_calls, errors, escaped, _sent = execute(case)
    except (BudgetExceeded, Deadlock):
        ctx.notes["inconclusive"] = ctx.notes.get("inconclusive", 0) + 1
        return False
    except Exception as e:  # noqa: BLE001
        ctx.fail(f"C34:scenario-exc:{exc_site(e)}", case, repr(e))
        return False
    return judge(ctx, case, calls, dev_calls, errors, escaped)


# --------------------------------------------------------------------------- strategies
# (drawn imperatively from integer primitives: nested flatmap/one_of strategies cost ~30 ms per case)
_I = st.integers


def _pick(draw, seq):
    return seq[draw(_I(0, len(seq) - 1))]


def _near_item(draw, v: int, m: int):
    k = draw(_I(0, 10))
    d1, d2 = draw(_I(0, 2)), draw(_I(0, 2))
    if k <= 1:
        return ["n", v]
    if k == 2:
        return ["r", max(v - d1, 0), min(v + d2, m)]
    if k == 3:
        return ["r", min(v + d2, m), max(v - d1, 0)]  # reversed
    if k == 4:
        return ["lo", min(v + d1, m)]
    if k == 5:
        return ["hi", max(v - d1, 0)]
    if k == 6:
        return ["lo", max(v - 1 - d1, 0)]  # just misses (unless clipped)
    if k == 7:
        return ["hi", min(v + 1 + d1, m)]  # just misses (unless clipped)
    if k == 8:
        return ["*"]
    if k == 9:
        return ["n", min(v + 1, m)]
    return ["n", draw(_I(0, m))]


def _pattern(draw, pool_vals, nl: int):
    if draw(_I(0, 3)) == 0:
        return _pick(draw, GLOBS)
    vals = _pick(draw, pool_vals)
    maxes = R.LEVEL_MAX[nl]
    return [[_near_item(draw, v, m) for _ in range(draw(_I(1, 2)))] for v, m in zip(vals, maxes)]


def _dst(draw, pool, names):
    k = draw(_I(0, 8))
    if k <= 2:
        a = _pick(draw, pool)
    elif k == 3:
        a = _pick(draw, pool)
        a = _pick(draw, [max(a - 1, 0), min(a + 1, 65535), a ^ 0x100, a ^ 0x800])
    elif k == 4:
        a = draw(_I(1, 65535))
    elif k <= 6:
        return _pick(draw, names)
    else:
        return "i-" + _pick(draw, NAMES)
    return a or 1  # 0 is the broadcast address: not a group telegram, never reaches the queue


def _reg(draw, pool, pool_vals, names, nl):
    f = None if draw(_I(0, 2)) == 0 else [_pattern(draw, pool_vals, nl) for _ in range(draw(_I(1, 3)))]
    g = None if draw(_I(0, 2)) <= 1 else [_dst(draw, pool, names) for _ in range(draw(_I(1, 3)))]
    return {
        "f": f,
        "g": g,
        "out": bool(draw(_I(0, 1))),
        "exc": _pick(draw, [None, None, *EXCS]) if draw(_I(0, 1)) else None,
        "once": draw(_I(0, 15)) == 0,
    }


def _tg(draw, pool, names):
    dst = _dst(draw, pool, names)
    dirn = _pick(draw, ["in", "out", "ind", "out"])
    if isinstance(dst, str) and dirn == "ind":
        dirn = "in"  # internal addresses never travel as cEMI
    return {"dst": dst, "dir": dirn, "apci": _pick(draw, ["w0", "w1", "w1", "wa", "r0", "r1", "rd"])}


@st.composite
def cases(draw):
    nl = _pick(draw, [3, 3, 2, 1])
    maxes = R.LEVEL_MAX[nl]
    pool_vals = [tuple(draw(_I(0, m)) for m in maxes) for _ in range(draw(_I(2, 4)))]
    pool = [R.join(v, nl) or 1 for v in pool_vals]
    names = sorted({"i-" + _pick(draw, NAMES) for _ in range(draw(_I(1, 3)))})
    ops = [["reg", _reg(draw, pool, pool_vals, names, nl)] for _ in range(draw(_I(1, 5)))]
    for _ in range(draw(_I(1, 12))):
        k = draw(_I(0, 5))
        if k <= 3:
            ops.append(["tg", _tg(draw, pool, names)])
        elif k == 4:
            ops.append(["reg", _reg(draw, pool, pool_vals, names, nl)])
        else:
            ops.append(["unreg", draw(_I(0, 7))])
    k = draw(_I(0, 2))
    dev = None if k == 0 else (_pick(draw, pool) if k == 1 else _pick(draw, names))
    rdevs = []
    if draw(_I(0, 2)) == 0:
        rdevs = [{"addr": _pick(draw, pool + names), "exc": _pick(draw, ["ConversionError", "ValueError"])} for _ in range(draw(_I(1, 2)))]
    return {"nl": nl, "dev": dev, "rdevs": rdevs, "ops": ops}


def _labels(case):
    regs = [op[1] for op in case["ops"] if op[0] == "reg"]
    tgs = [op[1] for op in case["ops"] if op[0] == "tg"]
    lab = [f"levels:{case['nl']}"]
    if any(r.get("exc") for r in regs):
        lab.append("raising-callback")
    if any(r.get("once") for r in regs):
        lab.append("self-unregistering-callback")
    if any(r.get("out") for r in regs):
        lab.append("outgoing-flag")
    if any(op[0] == "unreg" for op in case["ops"]):
        lab.append("unregister")
    if any(t["dir"] == "out" for t in tgs):
        lab.append("tg:outgoing")
    if any(t["dir"] == "ind" for t in tgs):
        lab.append("tg:incoming-cemi")
    if any(isinstance(t["dst"], str) for t in tgs):
        lab.append("tg:internal")
    if case.get("dev") is not None:
        lab.append("device")
    if case.get("rdevs"):
        lab.append("raising-device")
    return lab


def _hyp_oracle(ctx, case) -> None:
    nt = check_case(ctx, case)
    ntg = sum(1 for op in case["ops"] if op[0] == "tg")
    ctx.case(repr(case), nontrivial=nt, cls=_labels(case), sample=case if nt and ntg >= 4 else None)
    ctx.notes["telegrams"] = ctx.notes.get("telegrams", 0) + ntg


def _hyp_shard(ctx, n: int) -> None:
    hyp_search(ctx, cases(), _hyp_oracle, n)


FIXED = [
    # a device on the destination raises for the value: callbacks still see the telegram, in both directions
    {"nl": 3, "dev": None, "rdevs": [{"addr": 2563, "exc": "ConversionError"}], "ops": [["reg", {"f": None, "g": None, "out": True, "exc": None}], ["reg", {"f": None, "g": [2563], "out": True, "exc": None}], ["tg", {"dst": 2563, "dir": "in", "apci": "w1"}], ["tg", {"dst": 2563, "dir": "ind", "apci": "r1"}], ["tg", {"dst": 2563, "dir": "out", "apci": "w0"}]]},
    # three match-all callbacks, the middle one raising, plus a Switch (the scenario of the unit test, with a device)
    {"nl": 3, "dev": 2563, "ops": [["reg", {"f": None, "g": None, "out": False, "exc": None}], ["reg", {"f": None, "g": None, "out": False, "exc": "ValueError"}], ["reg", {"f": None, "g": None, "out": True, "exc": None}], ["tg", {"dst": 2563, "dir": "in", "apci": "w1"}], ["tg", {"dst": 2563, "dir": "out", "apci": "w0"}]]},
    # documented filter examples
    {"nl": 3, "dev": None, "ops": [["reg", {"f": [[[["n", 1]], [["*"]], [["r", 2, 5]]]], "g": None, "out": True, "exc": None}], ["reg", {"f": ["t?st"], "g": [2563], "out": False, "exc": None}], ["tg", {"dst": 2050, "dir": "ind", "apci": "w1"}], ["tg", {"dst": 2563, "dir": "out", "apci": "rd"}], ["tg", {"dst": "i-test", "dir": "out", "apci": "w1"}], ["tg", {"dst": "i-test", "dir": "in", "apci": "r1"}]]},
]


def run(ctx) -> None:
    for c in FIXED:
        nt = check_case(ctx, c)
        ctx.case(repr(c), nontrivial=nt, cls="fixed-example")
    parallel(ctx, _hyp_shard, [(ctx.n(350, 6000),)] * 16)


def replay(ctx, case) -> None:
    check_case(ctx, case)
