"""C12 - cEMI frame parsing is total with declared errors only.

Every byte string handed to `CEMIFrame.from_knx` yields a frame or raises
`CouldNotParseCEMI` / `UnsupportedCEMIMessage`; through `CEMIHandler.handle_raw_cemi`
(and the device-management receive path) the last-resort `except Exception` guard is
never needed (observed by replacing the module logger's `exception` method).
"""

from __future__ import annotations

import types

from hypothesis import strategies as st

from vk.core import exc_site
from vk.engine import hyp_search, parallel
from vk.ref import cemi_layout as L
from vk.strategies import cemi as S
from xknx import XKNX
from xknx.cemi import CEMIFrame, cemi_handler as H
from xknx.cemi.cemi_frame import CEMILData
from xknx.exceptions import CouldNotParseCEMI, UnsupportedCEMIMessage
from xknx.io import device_management_connection as DM

PROPERTY = "C12"
LEVEL = "exploration"
TECHNIQUE = "exhaustive enumeration of short frames + structure-aware property-based fuzzing (Hypothesis), collect-then-shrink"
RULE = (
    "all byte strings of length 0..2 (thorough: 0..3) exhaustively, plus Hypothesis-generated frames: every message "
    "code (biased to defined ones), additional-info length {0, small, = remaining, > remaining, 255, lying}, all "
    "Ctrl1/Ctrl2/EFF values, NPDU length {consistent, +1, -1, 0, 255, random}, every TPCI octet, raw APDUs over the "
    "10-bit APCI space with 0..254 data octets, A_Sec APDUs (APCI 0x3F1) with every Security Control Field octet x lengths 12/13/14/20 x "
    "message codes x destination kinds (enumerated) and generated ones biased to reserved algorithm / service codes, M_Prop frames (valid/unknown object types, noe=0 error forms, "
    "lengths 0..12), truncations, random bytes. Non-trivial = message code is L_Data.req/.con/.ind or "
    "M_PropRead/Write/Info and at least one more octet follows, i.e. the frame reaches CEMILData / CEMIMPropInfo parsing"
    "; thorough tier only: atheris/libFuzzer campaigns (vk/fuzz.py, fuzz/c12_target.py; 8 processes, half from an empty corpus, half from "
    "a seed corpus of valid inputs, -runs budget, -seed derived from VERIF_SEED) with this same oracle inside the target: input = the raw cEMI octets, oracle_full() (parser + both receive paths with their guards) after one parse under a sys.monitoring step budget (C12:nontermination:*); each "
    "execution counts as one evaluation, it is non-trivial by the same rule (reaches CEMILData / CEMIMPropInfo parsing, measured in the target), distinct by input hash"
)
FUZZ_RUNS = 100_000  # executions per campaign (thorough tier)
ASSUMPTIONS = [
    "declared errors are exactly xknx.exceptions.CouldNotParseCEMI and UnsupportedCEMIMessage (docstring of handle_raw_cemi)",
    "the guard is observed at cemi_handler.logger.exception / device_management_connection.logger.exception; "
    "CEMIHandler.handle_cemi_frame is replaced by a recorder so that only the parse stage is judged here (later stages: C14/C18/C43)",
    "termination is implied by the run finishing: the parser has no loops over input besides slicing (no step budget is enforced "
    "in the enumerations / Hypothesis runs); the thorough-tier atheris campaigns and replay() parse once under a sys.monitoring "
    "step budget of 20000 + 400*len (terminates(); generated frames need < 300 steps) before the unbudgeted oracle",
]
LEVEL_TEXT = "no input in the enumerated / generated space makes the cEMI parser raise an undeclared exception or reach a last-resort guard"
LEVEL_NOTE = "exhaustive up to 2 (3) octets; beyond that sampling only; trusted: Hypothesis generators cover the layout classes listed in RULE"

DECLARED = (CouldNotParseCEMI, UnsupportedCEMIMessage)
REACHING_CODES = frozenset(S.L_DATA_CODES + S.M_PROP_CODES)


def nontrivial(raw: bytes) -> bool:
    return len(raw) >= 2 and raw[0] in REACHING_CODES


def classify(raw: bytes) -> str:
    if not raw:
        return "empty"
    c = raw[0]
    if c in S.L_DATA_CODES:
        try:
            L.decode_ldata(raw)
            return "ldata-wellformed-layout"
        except L.RefError as e:
            return "ldata-bad:" + str(e)[:34]
    if c in S.M_PROP_CODES:
        return "mprop-len-ok" if len(raw) >= 7 else "mprop-short"
    if c in S.OTHER_DEFINED_CODES:
        return "other-defined-code"
    return "undefined-code"


def parse_only(ctx, raw: bytes):
    """Return ('frame', f) | ('declared', e) | ('bad', e)."""
    try:
        return "frame", CEMIFrame.from_knx(raw)
    except DECLARED as e:
        return "declared", e
    except RecursionError as e:
        ctx.fail("C12:parse-exc:RecursionError", raw, "RecursionError")
        return "bad", e
    except Exception as e:  # noqa: BLE001
        ctx.fail(
            f"C12:parse-exc:{exc_site(e)}",
            raw,
            f"CEMIFrame.from_knx(bytes.fromhex({raw.hex()!r})) raised {type(e).__name__}: {e} - undeclared; "
            "only the last-resort `except Exception` guards of handle_raw_cemi / _cemi_received catch it",
        )
        return "bad", e


class _Recorder:
    def __init__(self) -> None:
        self.guard: list[tuple] = []
        self.handled: list = []

    def exception(self, msg, *args, **kw):  # stands in for logger.exception
        import sys

        self.guard.append((msg, sys.exc_info()[1]))


class Patched:
    """Context: logger.exception of both receive modules -> recorder; handle_cemi_frame -> recorder."""

    def __enter__(self):
        self.rec = _Recorder()
        self._h = H.logger.exception
        self._d = DM.logger.exception
        self._f = H.CEMIHandler.handle_cemi_frame
        rec = self.rec
        H.logger.exception = rec.exception
        DM.logger.exception = rec.exception
        H.CEMIHandler.handle_cemi_frame = lambda self_, cemi: rec.handled.append(cemi)
        return rec

    def __exit__(self, *a):
        H.logger.exception = self._h
        DM.logger.exception = self._d
        H.CEMIHandler.handle_cemi_frame = self._f
        return False


def check_handler(ctx, rec: _Recorder, raw: bytes, kind: str) -> None:
    """CEMIHandler.handle_raw_cemi and _DeviceManagementConnection._cemi_received on `raw`."""
    del rec.guard[:], rec.handled[:]
    xknx = XKNX()
    try:
        xknx.cemi_handler.handle_raw_cemi(raw)
    except Exception as e:  # noqa: BLE001
        ctx.fail(f"C12:handler-raised:{exc_site(e)}", raw, f"handle_raw_cemi raised {type(e).__name__}: {e}")
    # An undeclared exception out of from_knx (kind == "bad") is already recorded under its
    # parse-exc bucket (one root cause = one bucket); the guard then HAS to be the one catching it.
    if bool(rec.guard) != (kind == "bad"):
        e = rec.guard[0][1] if rec.guard else None
        ctx.fail(f"C12:guard-taken:cemi_handler:{exc_site(e) if e else 'not-taken'}", raw, f"last-resort guard of handle_raw_cemi: taken={bool(rec.guard)} {type(e).__name__}: {e}; direct parse result was {kind}")
    errs = xknx.connection_manager.cemi_count_incoming_error
    if kind == "frame":
        if len(rec.handled) != 1 or errs != 0:
            ctx.fail("C12:handler-inconsistent:frame-not-forwarded", raw, f"parsed frame: forwarded {len(rec.handled)}x, error counter {errs}")
    elif len(rec.handled) != 0 or errs != 1:
        ctx.fail("C12:handler-inconsistent:error-not-counted", raw, f"unparsable frame: forwarded {len(rec.handled)}x, error counter {errs}")
    # device management receive path (second last-resort guard around the same parser)
    del rec.guard[:]
    stub = types.SimpleNamespace(indication_callback=None, _pending=None)
    try:
        DM._DeviceManagementConnection._cemi_received(stub, raw)
    except Exception as e:  # noqa: BLE001
        ctx.fail(f"C12:devmgmt-raised:{exc_site(e)}", raw, f"_cemi_received raised {type(e).__name__}: {e}")
    # (_cemi_received additionally tolerates ValueError, so "bad" does not imply its guard is taken)
    if rec.guard and kind != "bad":
        e = rec.guard[0][1]
        ctx.fail(f"C12:guard-taken:device_management:{exc_site(e) if e else '?'}", raw, f"last-resort guard of _cemi_received: taken={bool(rec.guard)} {type(e).__name__}: {e}; direct parse result was {kind}")


# Step budget of the parse stage (vk/budget.py, sys.monitoring events in xknx code; valid and generated frames
# need < 300).  Only the atheris campaigns and replay() use it - the enumerations and Hypothesis runs end by themselves.
A_STEPS, B_STEPS = 20_000, 400


def terminates(ctx, raw: bytes) -> bool:
    """One parse under the step budget; a non-terminating parse is recorded (and must not be run unbudgeted)."""
    from vk.budget import StepBudget, StepBudgetExceeded

    limit = A_STEPS + B_STEPS * len(raw)
    try:
        with StepBudget(limit):
            CEMIFrame.from_knx(raw)
    except StepBudgetExceeded as e:
        ctx.fail(f"C12:nontermination:{e.site}", raw, f"step budget {limit} exhausted parsing {len(raw)} octets in {e.site}")
        return False
    except Exception:  # noqa: BLE001 - judged by parse_only()
        pass
    return True


def oracle_full(ctx, raw: bytes, rec: _Recorder | None = None) -> None:
    kind, val = parse_only(ctx, raw)
    reached = nontrivial(raw)
    cls = classify(raw)
    if kind == "frame":
        cls2 = "parsed:" + type(val.data).__name__
    elif kind == "declared":
        cls2 = "declared:" + type(val).__name__
    else:
        cls2 = "undeclared"
    ctx.case(raw, nontrivial=reached, cls=(cls, cls2))
    if kind == "frame" and isinstance(val.data, CEMILData) and len(raw) > 14:
        ctx.sample({"raw": raw.hex(), "parsed": repr(val)[:160]})
    if rec is not None:
        check_handler(ctx, rec, raw, kind)
    else:
        with Patched() as r:
            check_handler(ctx, r, raw, kind)


# ---------------------------------------------------------------------------


def _enum_shard(ctx, length: int, first: int | None) -> None:
    """All frames of `length` octets (with fixed first octet if given): parser only."""
    n = nt = 0
    if length == 0:
        it = iter([b""])
    elif length == 1:
        it = (bytes([a]) for a in range(256))
    elif length == 2:
        it = (bytes([a, b]) for a in range(256) for b in range(256))
    else:
        it = (bytes([first, b, c]) for b in range(256) for c in range(256))
    for raw in it:
        n += 1
        nt += nontrivial(raw)
        parse_only(ctx, raw)
    ctx.bulk(n, nt, f"exhaustive-len{length}")


def enumerate_asec(ctx) -> None:
    """L_Data frames carrying an A_Sec APDU (APCI 0x3F1): every Security Control Field octet (all algorithm / service
    codes incl. the reserved ones) x APDU lengths 12/13/14/20 x message codes x destination kinds; full oracle."""
    frames = S.asec_scf_sweep_frames()
    with Patched() as rec:
        for raw in frames:
            oracle_full(ctx, raw, rec)
            ctx.classes["asec-scf-sweep"] += 1
    ctx.notes["asec_scf_sweep_frames"] = len(frames)


def _gen_shard(ctx, n_examples: int) -> None:
    with Patched() as rec:
        hyp_search(ctx, S.asec_ldata_frames(), lambda c, raw: oracle_full(c, raw, rec), max(50, n_examples // 5), seed_salt=78)
        hyp_search(ctx, S.raw_cemi_frames(), lambda c, raw: oracle_full(c, raw, rec), n_examples)
        hyp_search(ctx, S.wellformed_ldata_frames(), lambda c, raw: oracle_full(c, raw, rec), n_examples // 2, seed_salt=77)


def selftest(ctx) -> None:
    L.selftest()
    # the observation point works: a parser that raises an undeclared error is seen at both guards
    orig = CEMIFrame.from_knx
    try:
        CEMIFrame.from_knx = staticmethod(lambda raw: (_ for _ in ()).throw(KeyError("selftest")))
        c = ctx.sub(0)
        with Patched() as rec:
            check_handler(c, rec, b"\x29\x00", "declared")
        assert any(b.startswith("C12:guard-taken:cemi_handler") for b in c.failures), c.failures.keys()
        assert any(b.startswith("C12:guard-taken:device_management") for b in c.failures), c.failures.keys()
    finally:
        CEMIFrame.from_knx = orig
    assert H.logger.exception.__self__ is H.logger  # restored


def run(ctx) -> None:
    # exhaustive short frames: parser in bulk, handler paths on lengths 0..1 and a slice of length 2
    for length in (0, 1, 2):
        _enum_shard(ctx, length, None)
    with Patched() as rec:
        for raw in [b""] + [bytes([a]) for a in range(256)] + [bytes([a, b]) for a in S.L_DATA_CODES + S.M_PROP_CODES + (0x00,) for b in range(256)]:
            kind, _ = parse_only(ctx.sub(0), raw)  # failures already recorded by the bulk pass
            check_handler(ctx, rec, raw, kind)
    enumerate_asec(ctx)
    if not ctx.quick:
        parallel(ctx, _enum_shard, [(3, a) for a in range(256)])
    ctx.notes["exhaustive_lengths"] = "0..2" if ctx.quick else "0..3"
    shards = ctx.n(8, 16)
    per = ctx.n(1000, 24000)
    parallel(ctx, _gen_shard, [(per,)] * shards)
    if not ctx.quick:  # thorough tier only: coverage-guided campaigns, oracle inside the target
        from vk.fuzz import run_fuzz

        run_fuzz(ctx, PROPERTY, runs=FUZZ_RUNS, jobs=8)


def replay(ctx, case) -> None:
    raw = case if isinstance(case, (bytes, bytearray)) else case.get("raw", b"")
    if terminates(ctx, bytes(raw)):
        oracle_full(ctx, bytes(raw))
