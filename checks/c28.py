"""C28 - KNX IP Secure wrapping is correct, tamper-evident and standard-conformant.

Parts (all against the independent reference vk/ref/ipsecure.py, which is validated against
the AN159 example values in selftest):

 wrap   SecureSession / SecureGroup .encrypt_frame of a generated plain frame: the wire bytes
        equal ref.wrap(); a second object sharing key/session id unwraps to the identical frame
        (decrypt_frame and the full handle_knxipframe delivery path); every single-bit flip of the
        wrapper, a wrong key and a wrong session id are rejected (never a frame).
 hs     SecureSession.handshake with generated X25519 key pairs / user ids / pooled passwords:
        a reference-built SessionResponse is accepted, the returned SessionAuthenticate MAC and
        the derived session key equal the reference; every single-bit flip of the response
        (session id, server key, MAC) and a wrong device authentication code are refused.
 e2e    SecureSession.connect() over a fake TCP transport: SessionRequest, wrapped
        SessionAuthenticate, wrapped data frames and the closing SessionStatus are compared byte
        for byte with the reference; reference-wrapped server frames are delivered.
 timer  SecureSequenceTimer.send_timer_notify wire bytes equal the reference TimerNotify;
        verify_timer_notify_mac accepts the reference MAC and refuses all 240 single-bit flips.
"""

from __future__ import annotations

import asyncio
import functools
import gc
import traceback

from cryptography.hazmat.primitives import serialization
from cryptography.hazmat.primitives.asymmetric.x25519 import X25519PrivateKey
from hypothesis import strategies as st

from vk.core import HarnessError, exc_site
from vk.engine import hyp_search, parallel
from vk.ref import ipsecure as ref
from xknx.exceptions import CouldNotParseKNXIP, IPSecureError, KNXSecureValidationError, XKNXException
import xknx.io.ip_secure as ips
from xknx.io.ip_secure import SecureGroup, SecureSequenceTimer, SecureSession
from xknx.knxip import (
    HPAI,
    ConnectionStateRequest,
    ConnectionStateResponse,
    ConnectRequest,
    ConnectResponse,
    DescriptionRequest,
    DescriptionResponse,
    DeviceConfigurationAck,
    DeviceConfigurationRequest,
    DisconnectRequest,
    DisconnectResponse,
    ErrorCode,
    KNXIPFrame,
    RoutingBusy,
    RoutingIndication,
    RoutingLostMessage,
    SearchRequest,
    SearchRequestExtended,
    SearchResponse,
    SecureWrapper,
    SessionAuthenticate,
    SessionRequest,
    SessionResponse,
    SessionStatus,
    TimerNotify,
    TunnellingAck,
    TunnellingRequest,
)
from xknx.knxip.connect_request import ConnectRequestInformation
from xknx.knxip.connect_response import ConnectResponseData
from xknx.knxip.knxip_enum import (
    ConnectRequestType,
    HostProtocol,
    SecureSessionStatusCode,
    TunnellingFeatureType,
    TunnellingLayer,
)
from xknx.knxip.tunnelling_feature import (
    ReturnCode,
    TunnellingFeatureGet,
    TunnellingFeatureInfo,
    TunnellingFeatureResponse,
    TunnellingFeatureSet,
)
from xknx.telegram import IndividualAddress

PROPERTY = "C28"
LEVEL = "exploration"
TECHNIQUE = "property-based testing (Hypothesis) + exhaustive single-bit fault enumeration per wrapper vs independent reference"
RULE = (
    "Hypothesis-generated cases: (wrap) plain frames of 27 KNXnet/IP body types with random fields/lengths "
    "x {SecureSession, SecureGroup} x random 16-octet key, session id, 6-octet sequence info (boundary biased), "
    "serial number, message tag; each wrapper is compared with the reference bytes, unwrapped by a second "
    "object and then ALL single-bit flips, a wrong key (1-bit and random) and a wrong session id are tried; "
    "(hs) handshakes with generated X25519 pairs, user ids 1..127, passwords from a pool of 8, all "
    "single-bit flips of the SessionResponse; (e2e) connect() over a fake TCP transport; (timer) TimerNotify "
    "with random key/timer/serial/tag + 240 flips. Every case is non-trivial (distinct wrapper bytes / "
    "handshake inputs are counted); frames whose plain codec does not round-trip (C21's business) are skipped."
)
ASSUMPTIONS = [
    "reference written from KNX 03_08_09/AN159 and validated against its example values (handshake, wrapped SessionAuthenticate/SessionStatus, secured RoutingIndication); no AN159 TimerNotify MAC vector exists in the tree, the TimerNotify construction follows the wrapper one with empty payload and A = header",
    "payloads <= 4080 octets (one-octet CTR block counter of the specification)",
    "IP Secure passwords are printable ASCII (ETS restriction), so the password encoding is not probed",
    "the trusted base is AES-128 single block / SHA-256 / PBKDF2 of OpenSSL via cryptography and hashlib; X25519 is re-implemented in pure Python (RFC 7748 vectors)",
    "sequence information, serial number and message tag are steered through the module attributes the code reads (XKNX_SERIAL_NUMBER, MESSAGE_TAG_TUNNELLING, random) and the timer's clock offset; time is a fake loop clock",
]
LEVEL_TEXT = (
    "Generated search plus exhaustive single-bit tampering of every generated wrapper / SessionResponse / "
    "TimerNotify against an independent implementation of the KNX IP Secure constructions; no violation "
    "means none in the explored cases, not a proof."
)
LEVEL_NOTE = "Trusted: AES-128 block primitive, SHA-256, PBKDF2, the reference (validated by AN159 vectors), Hypothesis."

PASSWORDS = ["secret", "trustme", "a", "P@ssw0rd with spaces ~!", "0123456789abcdef0123", " ", "Zz{|}~", "user-password.1"]
ERROR_CODES = list(ErrorCode)
CONN_TYPES = list(ConnectRequestType)
LAYERS = list(TunnellingLayer)
FEATURES = list(TunnellingFeatureType)
RETURN_CODES = list(ReturnCode)
STATUS_CODES = list(SecureSessionStatusCode)

REAL_SERIAL = ips.XKNX_SERIAL_NUMBER
REAL_TAG = ips.MESSAGE_TAG_TUNNELLING
ALLOWED_REJECT = (KNXSecureValidationError, CouldNotParseKNXIP)


# ---------------------------------------------------------------------------
# cached key derivation (ref side and, through a caching wrapper around the REAL functions, xknx side)

ref_user = functools.lru_cache(maxsize=None)(ref.derive_user_password)
ref_device = functools.lru_cache(maxsize=None)(ref.derive_device_authentication_code)


class _Patches:
    """Process-global attributes patched for the duration of run()/replay(); always restored."""

    def __init__(self) -> None:
        self.saved: list[tuple[object, str, object]] = []

    def set(self, obj: object, name: str, value: object) -> None:
        self.saved.append((obj, name, getattr(obj, name)))
        setattr(obj, name, value)

    def restore(self) -> None:
        while self.saved:
            obj, name, value = self.saved.pop()
            setattr(obj, name, value)


class _Rand:
    """Stand-in for the `random` module inside xknx.io.ip_secure."""

    def __init__(self) -> None:
        self.tag = b"\x00\x00"
        self.calls = 0

    def randbytes(self, n: int) -> bytes:
        """A stream of DISTINCT 2-octet values (tag, tag+1, ...): like the real RNG, no two calls agree,
        so code that draws the message tag twice for one frame shows up."""
        assert n == 2
        out = ((int.from_bytes(self.tag, "big") + self.calls) & 0xFFFF).to_bytes(2, "big")
        self.calls += 1
        return out

    def uniform(self, a: float, b: float) -> float:
        return a

    def random(self) -> float:
        return 0.0


RAND = _Rand()


class _Handle:
    def cancel(self) -> None:
        pass

    def cancelled(self) -> bool:
        return True


class FakeLoop:
    """Clock/timer stand-in for SecureSequenceTimer._loop (time fixed at 0, nothing ever fires)."""

    def time(self) -> float:
        return 0.0

    def call_later(self, delay, cb, *args):  # noqa: ANN001
        return _Handle()

    def create_future(self):
        raise HarnessError("FakeLoop.create_future not expected")


class FakeTransport:
    def __init__(self) -> None:
        self.writes: list[bytes] = []
        self.closed = False

    def write(self, data: bytes) -> None:
        self.writes.append(bytes(data))

    def close(self) -> None:
        self.closed = True

    def is_closing(self) -> bool:
        return self.closed

    def get_extra_info(self, name, default=None):  # noqa: ANN001
        return ("127.0.0.1", 50000) if name in ("sockname", "peername") else default


_LOOP: asyncio.AbstractEventLoop | None = None


def loop() -> asyncio.AbstractEventLoop:
    global _LOOP
    if _LOOP is None or _LOOP.is_closed():
        _LOOP = asyncio.new_event_loop()
        # virtual, frozen clock: no asyncio timeout (1 s SessionRequest, 10 s SessionAuthenticate, 60 s
        # keepalive) may ever fire because the machine is busy - scenarios only yield with sleep(0)
        _LOOP.time = lambda: 1000.0  # type: ignore[method-assign]
    return _LOOP


def apply_patches() -> _Patches:
    p = _Patches()
    p.set(ips, "derive_user_password", functools.lru_cache(maxsize=None)(ips.derive_user_password))
    p.set(ips, "derive_device_authentication_password", functools.lru_cache(maxsize=None)(ips.derive_device_authentication_password))
    p.set(ips, "random", RAND)
    return p


def set_ids(serial: bytes, tag: bytes) -> None:
    ips.XKNX_SERIAL_NUMBER = serial
    ips.MESSAGE_TAG_TUNNELLING = tag
    RAND.tag = tag
    RAND.calls = 0


def reset_ids() -> None:
    ips.XKNX_SERIAL_NUMBER = REAL_SERIAL
    ips.MESSAGE_TAG_TUNNELLING = REAL_TAG


# ---------------------------------------------------------------------------
# plain frame specifications (data) -> xknx frames


def _hpai(spec) -> HPAI:
    ip, port, tcp = spec
    return HPAI(ip_addr=".".join(str(b) for b in ip), port=port, protocol=HostProtocol.IPV4_TCP if tcp else HostProtocol.IPV4_UDP)


def _ia(raw):
    return None if raw is None else IndividualAddress(raw)


def build_frame(spec: dict) -> KNXIPFrame:
    t = spec["t"]
    g = spec.get
    if t == "TunnellingRequest":
        body = TunnellingRequest(communication_channel_id=g("ch"), sequence_counter=g("sc"), raw_cemi=g("cemi"))
    elif t == "TunnellingAck":
        body = TunnellingAck(communication_channel_id=g("ch"), sequence_counter=g("sc"), status_code=ERROR_CODES[g("st") % len(ERROR_CODES)])
    elif t == "RoutingIndication":
        body = RoutingIndication(raw_cemi=g("cemi"))
    elif t == "RoutingBusy":
        body = RoutingBusy(device_state=g("ch"), wait_time=g("a16"), control_field=g("b16"))
    elif t == "RoutingLostMessage":
        body = RoutingLostMessage(device_state=g("ch"), lost_messages=g("a16"))
    elif t == "ConnectRequest":
        ct = CONN_TYPES[g("st") % len(CONN_TYPES)]
        cri = ConnectRequestInformation(connection_type=ct, knx_layer=LAYERS[g("sc") % len(LAYERS)], individual_address=_ia(g("ia")))
        body = ConnectRequest(control_endpoint=_hpai(g("h1")), data_endpoint=_hpai(g("h2")), cri=cri)
    elif t == "ConnectResponse":
        crd = ConnectResponseData(request_type=CONN_TYPES[g("sc") % len(CONN_TYPES)], individual_address=_ia(g("ia")))
        body = ConnectResponse(communication_channel=g("ch"), status_code=ERROR_CODES[g("st") % len(ERROR_CODES)], data_endpoint=_hpai(g("h1")), crd=crd)
    elif t == "ConnectionStateRequest":
        body = ConnectionStateRequest(communication_channel_id=g("ch"), control_endpoint=_hpai(g("h1")))
    elif t == "ConnectionStateResponse":
        body = ConnectionStateResponse(communication_channel_id=g("ch"), status_code=ERROR_CODES[g("st") % len(ERROR_CODES)])
    elif t == "DisconnectRequest":
        body = DisconnectRequest(communication_channel_id=g("ch"), control_endpoint=_hpai(g("h1")))
    elif t == "DisconnectResponse":
        body = DisconnectResponse(communication_channel_id=g("ch"), status_code=ERROR_CODES[g("st") % len(ERROR_CODES)])
    elif t == "DeviceConfigurationRequest":
        body = DeviceConfigurationRequest(communication_channel_id=g("ch"), sequence_counter=g("sc"), raw_cemi=g("cemi"))
    elif t == "DeviceConfigurationAck":
        body = DeviceConfigurationAck(communication_channel_id=g("ch"), sequence_counter=g("sc"), status_code=ERROR_CODES[g("st") % len(ERROR_CODES)])
    elif t == "SearchRequest":
        body = SearchRequest(discovery_endpoint=_hpai(g("h1")))
    elif t == "SearchRequestExtended":
        body = SearchRequestExtended(discovery_endpoint=_hpai(g("h1")))
    elif t == "DescriptionRequest":
        body = DescriptionRequest(control_endpoint=_hpai(g("h1")))
    elif t == "DescriptionResponse":
        body = DescriptionResponse()
    elif t == "SearchResponse":
        body = SearchResponse(control_endpoint=_hpai(g("h1")))
    elif t == "SessionRequest":
        body = SessionRequest(control_endpoint=_hpai(g("h1")), ecdh_client_public_key=g("k32"))
    elif t == "SessionResponse":
        body = SessionResponse(secure_session_id=g("a16"), ecdh_server_public_key=g("k32"), message_authentication_code=g("m16"))
    elif t == "SessionAuthenticate":
        body = SessionAuthenticate(user_id=g("ch"), message_authentication_code=g("m16"))
    elif t == "SessionStatus":
        body = SessionStatus(status=STATUS_CODES[g("st") % len(STATUS_CODES)])
    elif t == "TimerNotify":
        body = TimerNotify(timer_value=g("a16") * 65536 * 65536 + g("b16") * 65536 + g("a16"), serial_number=g("k32")[:6], message_tag=g("k32")[6:8], message_authentication_code=g("m16"))
    elif t == "TunnellingFeatureGet":
        body = TunnellingFeatureGet(communication_channel_id=g("ch"), sequence_counter=g("sc"), feature_type=FEATURES[g("st") % len(FEATURES)])
    elif t == "TunnellingFeatureSet":
        body = TunnellingFeatureSet(communication_channel_id=g("ch"), sequence_counter=g("sc"), feature_type=FEATURES[g("st") % len(FEATURES)], data=g("cemi")[:4])
    elif t == "TunnellingFeatureInfo":
        body = TunnellingFeatureInfo(communication_channel_id=g("ch"), sequence_counter=g("sc"), feature_type=FEATURES[g("st") % len(FEATURES)], data=g("cemi")[:4])
    elif t == "TunnellingFeatureResponse":
        body = TunnellingFeatureResponse(
            communication_channel_id=g("ch"), sequence_counter=g("sc"), feature_type=FEATURES[g("st") % len(FEATURES)],
            return_code=RETURN_CODES[g("a16") % len(RETURN_CODES)], data=g("cemi")[:4],
        )
    else:
        raise HarnessError(f"unknown frame spec {t}")
    return KNXIPFrame.init_from_body(body)


FRAME_TYPES = [
    "TunnellingRequest", "TunnellingAck", "RoutingIndication", "RoutingBusy", "RoutingLostMessage", "ConnectRequest",
    "ConnectResponse", "ConnectionStateRequest", "ConnectionStateResponse", "DisconnectRequest", "DisconnectResponse",
    "DeviceConfigurationRequest", "DeviceConfigurationAck", "SearchRequest", "SearchRequestExtended", "DescriptionRequest",
    "DescriptionResponse", "SearchResponse", "SessionRequest", "SessionResponse", "SessionAuthenticate", "SessionStatus",
    "TimerNotify", "TunnellingFeatureGet", "TunnellingFeatureSet", "TunnellingFeatureInfo", "TunnellingFeatureResponse",
]

u8 = st.integers(0, 255)
u16 = st.integers(0, 65535)
st_hpai = st.tuples(st.lists(u8, min_size=4, max_size=4), u16, st.booleans())
st_cemi = st.one_of(st.binary(min_size=1, max_size=24), st.binary(min_size=0, max_size=64), st.binary(min_size=200, max_size=260))
st_frame = st.fixed_dictionaries(
    {
        "t": st.sampled_from(FRAME_TYPES),
        "ch": u8, "sc": u8, "st": u8, "a16": u16, "b16": u16,
        "cemi": st_cemi,
        "h1": st_hpai, "h2": st_hpai,
        "ia": st.one_of(st.none(), u16),
        "k32": st.binary(min_size=32, max_size=32),
        "m16": st.binary(min_size=16, max_size=16),
    }
)
SEQ_EDGES = [0, 1, 255, 256, 0xFFFF, 0x10000, 0xFFFFFFFF, 0x100000000, 2**48 - 2, 2**48 - 1]
st_seq = st.one_of(st.integers(0, 2**48 - 1), st.sampled_from(SEQ_EDGES), st.integers(0, 100000))
b16 = st.binary(min_size=16, max_size=16)
st_wrap = st.fixed_dictionaries(
    {
        "part": st.just("wrap"),
        "kind": st.sampled_from(["session", "group"]),
        "key": b16,
        "sid": st.one_of(st.integers(1, 65535), st.sampled_from([1, 2, 255, 256, 65535])),
        "seq": st_seq,
        "serial": st.binary(min_size=6, max_size=6),
        "tag": st.binary(min_size=2, max_size=2),
        "frame": st_frame,
        "key2": b16,
        "sid2": u16,
    }
)
k32 = st.binary(min_size=32, max_size=32)
st_hs = st.fixed_dictionaries(
    {
        "part": st.just("hs"),
        "cpriv": k32, "spriv": k32,
        "sid": st.integers(1, 65535),
        "uid": st.integers(1, 127),
        "upw": st.integers(0, len(PASSWORDS) - 1),
        "dpw": st.one_of(st.none(), st.integers(0, len(PASSWORDS) - 1)),
        "serial": st.binary(min_size=6, max_size=6),
        "tag": st.binary(min_size=2, max_size=2),
    }
)
st_e2e = st.fixed_dictionaries(
    {
        "part": st.just("e2e"),
        "cpriv": k32, "spriv": k32,
        "sid": st.integers(1, 65535),
        "uid": st.integers(1, 127),
        "upw": st.integers(0, len(PASSWORDS) - 1),
        "dpw": st.one_of(st.none(), st.integers(0, len(PASSWORDS) - 1)),
        "serial": st.binary(min_size=6, max_size=6),
        "tag": st.binary(min_size=2, max_size=2),
        "sserial": st.binary(min_size=6, max_size=6),
        "sseq": st.one_of(st.integers(0, 2**48 - 6), st.sampled_from([0, 2**48 - 6])),
        "frames": st.lists(st_frame, min_size=1, max_size=3),
        "bad": st.one_of(st.none(), st.integers(0, 50 * 8 - 1)),
    }
)
st_timer = st.fixed_dictionaries(
    {
        "part": st.just("timer"),
        "key": b16,
        "timer": st_seq,
        "serial": st.binary(min_size=6, max_size=6),
        "tag": st.binary(min_size=2, max_size=2),
        "explicit": st.booleans(),
    }
)


# ---------------------------------------------------------------------------
# object construction


def make_session(key: bytes, sid: int, seq: int, pw: str = "secret", dpw: str | None = None, uid: int = 2) -> SecureSession:
    s = SecureSession(remote_addr=("127.0.0.1", 3671), user_id=uid, user_password=pw, device_authentication_password=dpw)
    s._key = key
    s.session_id = sid
    s._sequence_number = seq
    s._sequence_number_received = -1
    s.initialized = True
    return s


def make_group(key: bytes, timer_value: int) -> SecureGroup:
    async def _mk() -> SecureGroup:
        return SecureGroup(local_addr=("127.0.0.1", 0), remote_addr=("224.0.23.12", 3671), backbone_key=key, latency_ms=1000)

    g = loop().run_until_complete(_mk())
    g.secure_timer._loop = FakeLoop()
    g.secure_timer._clock_difference = timer_value
    g.secure_timer.timer_authenticated = True
    return g


def make_timer(key: bytes, timer_value: int, sink: list) -> SecureSequenceTimer:
    async def _mk() -> SecureSequenceTimer:
        return SecureSequenceTimer(backbone_key=key, latency_ms=1000, transport_send=lambda f, a: sink.append(f))

    t = loop().run_until_complete(_mk())
    t._loop = FakeLoop()
    t._clock_difference = timer_value
    return t


def regions(n: int):
    return [("header", 0, 6), ("session_id", 6, 8), ("seq", 8, 14), ("serial", 14, 20), ("tag", 20, 22), ("ciphertext", 22, n - 16), ("mac", n - 16, n)]


def region_of(pos: int, n: int) -> str:
    for name, a, b in regions(n):
        if a <= pos < b:
            return name
    return "?"


def first_diff_region(a: bytes, b: bytes) -> str:
    if len(a) != len(b):
        return "length"
    for i, (x, y) in enumerate(zip(a, b)):
        if x != y:
            return region_of(i, len(a))
    return "none"


def frames_equal(a: KNXIPFrame, b: KNXIPFrame) -> bool:
    return type(a.body) is type(b.body) and a.header == b.header and a.body == b.body and a.to_knx() == b.to_knx()


def plain_ok(frame: KNXIPFrame) -> bytes | None:
    """Bytes of the plain frame if the plain codec round-trips it (else None: not C28's business)."""
    try:
        raw = frame.to_knx()
        back, rest = KNXIPFrame.from_knx(raw)
    except Exception:  # noqa: BLE001
        return None
    if rest or not frames_equal(back, frame) or len(raw) > ref.MAX_PAYLOAD:
        return None
    return raw


def receive(ctx, rx, raw: bytes, inp, kind: str, what: str):
    """Feed possibly tampered wrapper bytes to receiver `rx`.

    Returns a delivered KNXIPFrame (= accepted) or None (= rejected)."""
    try:
        frame, _rest = KNXIPFrame.from_knx(raw)
    except CouldNotParseKNXIP:
        return None
    except Exception as e:  # noqa: BLE001
        ctx.fail(f"C28:{what}-exc:{exc_site(e)}", inp, repr(e))
        return None
    if isinstance(frame.body, SecureWrapper):
        try:
            return rx.decrypt_frame(frame)
        except ALLOWED_REJECT:
            return None
        except Exception as e:  # noqa: BLE001
            ctx.fail(f"C28:{what}-exc:{exc_site(e)}", inp, repr(e))
            return None
    # not a wrapper any more (service type bit flipped): must be dropped by the transport
    got: list = []
    cb = rx.register_callback(lambda f, src, tr=None: got.append(f))
    try:
        rx.handle_knxipframe(frame, HPAI("127.0.0.1", 3671))
    except CouldNotParseKNXIP:
        return None
    except Exception as e:  # noqa: BLE001
        ctx.fail(f"C28:{what}-exc:{exc_site(e)}", inp, repr(e))
        return None
    finally:
        rx.unregister_callback(cb)
    return got[0] if got else None


def deliver(rx, frame: KNXIPFrame):
    """Full receive path (handle_knxipframe) -> list of frames handed to callbacks."""
    got: list = []
    cb = rx.register_callback(lambda f, src, tr=None: got.append(f))
    try:
        rx.handle_knxipframe(frame, HPAI("127.0.0.1", 3671))
    finally:
        rx.unregister_callback(cb)
    return got


# ---------------------------------------------------------------------------
# oracles


def check_wrap(ctx, case: dict) -> None:
    kind, key, seq, serial, tag = case["kind"], case["key"], case["seq"], case["serial"], case["tag"]
    sid = case["sid"] if kind == "session" else 0
    try:
        frame = build_frame(case["frame"])
    except HarnessError:
        raise
    except Exception:  # noqa: BLE001 - constructor refuses the field combination
        ctx.case(None, nontrivial=False, cls="skipped:unbuildable")
        return
    plain = plain_ok(frame)
    if plain is None:
        ctx.case(None, nontrivial=False, cls=f"skipped:plain-codec:{case['frame']['t']}")
        return
    ftype = case["frame"]["t"]
    inp = case
    set_ids(serial, tag)
    tx = rx = None
    try:
        if kind == "session":
            tx = make_session(key, sid, seq)
            rx = make_session(key, sid, 0)
        else:
            tx = make_group(key, seq)
            rx = make_group(key, seq)
        # ---- (c) wire bytes vs reference
        try:
            wrapped = tx.encrypt_frame(frame)
            wire = wrapped.to_knx()
        except Exception as e:  # noqa: BLE001
            ctx.fail(f"C28:encrypt-exc:{exc_site(e)}", inp, "".join(traceback.format_exception_only(type(e), e)))
            return
        # the reference is computed from the fields the wrapper actually carries: a SecureGroup draws its
        # message tag from a random source (here a stream of distinct values starting at `tag`)
        wire_tag = bytes(wrapped.body.message_tag) if isinstance(wrapped.body, SecureWrapper) else tag
        if kind == "session" and wire_tag != tag:
            ctx.fail("C28:wire-tag:session", inp, f"session wrapper carries tag {wire_tag.hex()}, MESSAGE_TAG_TUNNELLING is {tag.hex()}")
        expect = ref.wrap(key, sid, seq.to_bytes(6, "big"), serial, wire_tag if len(wire_tag) == 2 else tag, plain)
        ctx.case(wire, nontrivial=True, cls=[f"wrap:{kind}", f"frame:{ftype}"], sample={"kind": kind, "frame": ftype, "plain_len": len(plain), "seq": seq, "sid": sid})
        if wire != expect:
            ctx.fail(f"C28:wire-neq-ref:{first_diff_region(wire, expect)}:{kind}", inp, f"xknx {wire.hex()} ref {expect.hex()}")
        if kind == "session" and tx._sequence_number != seq + 1:
            ctx.fail("C28:seq-not-incremented:session", inp, f"after encrypt: {tx._sequence_number}, expected {seq + 1}")
        # ---- (a) round trip through a second object, both from xknx's and from the reference's bytes
        for label, raw in (("own", wire), ("ref", expect)):
            got = receive(ctx, rx, raw, inp, kind, f"unwrap-{label}")
            if got is None:
                ctx.fail(f"C28:roundtrip-rejected:{label}:{kind}", inp, f"valid wrapper refused: {raw.hex()}")
            elif not frames_equal(got, frame):
                ctx.fail(f"C28:roundtrip-neq:{label}:{kind}", inp, f"{frame} -> {got}")
        try:
            ref_plain = ref.unwrap(key, wire, sid)
        except ref.RefError as e:
            ref_plain = None
            ctx.fail(f"C28:ref-rejects-xknx-wrapper:{kind}", inp, f"{e}: {wire.hex()}")
        if ref_plain is not None and ref_plain != plain:
            ctx.fail(f"C28:ref-unwrap-neq:{kind}", inp, f"{ref_plain.hex()} != {plain.hex()}")
        # full delivery path (sequence / timer validation included)
        try:
            parsed, _ = KNXIPFrame.from_knx(expect)
            got_l = deliver(rx, parsed)
            if len(got_l) != 1 or not frames_equal(got_l[0], frame):
                ctx.fail(f"C28:delivery:{kind}", inp, f"handle_knxipframe delivered {got_l}")
        except Exception as e:  # noqa: BLE001
            ctx.fail(f"C28:delivery-exc:{exc_site(e)}", inp, repr(e))
        # ---- (b) tampering: all single-bit flips of the reference wrapper
        base = expect
        n = len(base)
        bad = 0
        for bit in range(n * 8):
            t = bytearray(base)
            t[bit >> 3] ^= 1 << (bit & 7)
            got = receive(ctx, rx, bytes(t), inp, kind, "tamper")
            if got is not None:
                bad += 1
                ctx.fail(f"C28:tamper-accepted:{region_of(bit >> 3, n)}:{kind}", {**inp, "bit": bit}, f"bit {bit} flipped, still delivered {got}")
        ctx.bulk(n * 8, n * 8, "bit-flip")
        # wrong key (one bit off, and an unrelated one), wrong session id
        keys = [bytes([key[0] ^ 1]) + key[1:], key[:15] + bytes([key[15] ^ 0x80])]
        if case["key2"] != key:
            keys.append(case["key2"])
        for k2 in keys:
            rx._key = k2
            if kind == "group":
                rx.secure_timer._backbone_key = k2
            got = receive(ctx, rx, base, inp, kind, "wrongkey")
            if got is not None:
                ctx.fail(f"C28:wrong-key-accepted:{kind}", inp, f"receiver key {k2.hex()} delivered {got}")
        ctx.bulk(len(keys), len(keys), "wrong-key")
        rx._key = key
        if kind == "session":
            for sid2 in {case["sid2"], sid ^ 1, (sid + 1) & 0xFFFF, 0} - {sid}:
                rx.session_id = sid2
                got = receive(ctx, rx, base, inp, kind, "wrongsid")
                if got is not None:
                    ctx.fail("C28:wrong-session-accepted:session", inp, f"receiver session {sid2} delivered {got}")
                ctx.bulk(1, 1, "wrong-session")
            rx.session_id = sid
    finally:
        reset_ids()
        for o in (tx, rx):
            if isinstance(o, SecureGroup):
                o.secure_timer.stop()


def _client_keys(cpriv: bytes):
    priv = X25519PrivateKey.from_private_bytes(cpriv)
    pub = priv.public_key().public_bytes(serialization.Encoding.Raw, serialization.PublicFormat.Raw)
    if pub != ref.x25519_public(cpriv):
        raise HarnessError("reference X25519 disagrees with cryptography's public key derivation")
    return priv, pub


def check_hs(ctx, case: dict) -> None:
    inp = case
    upw = PASSWORDS[case["upw"]]
    dpw = None if case["dpw"] is None else PASSWORDS[case["dpw"]]
    sid, uid = case["sid"], case["uid"]
    priv, cpub = _client_keys(case["cpriv"])
    spub = ref.x25519_public(case["spriv"])
    dev = ref_device(dpw) if dpw is not None else bytes(16)
    resp_mac = ref.session_response_mac(dev, sid, cpub, spub)
    exp_auth = ref.session_authenticate_mac(ref_user(upw), uid, cpub, spub)
    exp_key = ref.session_key(case["spriv"], cpub)  # derived on the server side
    ctx.case((case["cpriv"], case["spriv"], sid, uid, upw, dpw), nontrivial=True, cls=["hs", "hs:device-auth" if dpw is not None else "hs:no-device-auth"],
             sample={"part": "hs", "sid": sid, "uid": uid, "upw": upw, "dpw": dpw})

    def session() -> SecureSession:
        s = SecureSession(remote_addr=("127.0.0.1", 3671), user_id=uid, user_password=upw, device_authentication_password=dpw)
        s._private_key = priv
        s.public_key = cpub
        return s

    set_ids(case["serial"], case["tag"])
    try:
        s = session()
        try:
            auth = s.handshake(SessionResponse(secure_session_id=sid, ecdh_server_public_key=spub, message_authentication_code=resp_mac))
        except IPSecureError as e:
            ctx.fail("C28:hs-valid-response-refused", inp, repr(e))
            return
        except Exception as e:  # noqa: BLE001
            ctx.fail(f"C28:hs-exc:{exc_site(e)}", inp, repr(e))
            return
        if auth != exp_auth:
            ctx.fail("C28:hs-authenticate-mac-neq-ref", inp, f"xknx {bytes(auth).hex()} ref {exp_auth.hex()}")
        if s._key != exp_key:
            ctx.fail("C28:hs-session-key-neq-ref", inp, f"xknx {bytes(s._key).hex()} ref {exp_key.hex()}")
        if s.session_id != sid:
            ctx.fail("C28:hs-session-id", inp, f"{s.session_id} != {sid}")
        # the SessionAuthenticate frame as it goes on the wire (first wrapper, sequence 0)
        s.initialized = True
        try:
            wire = s.encrypt_frame(KNXIPFrame.init_from_body(SessionAuthenticate(user_id=uid, message_authentication_code=auth))).to_knx()
            auth_plain = ref.header(ref.SESSION_AUTHENTICATE_SERVICE, 0x18) + bytes([0, uid]) + exp_auth
            expect = ref.wrap(exp_key, sid, bytes(6), case["serial"], case["tag"], auth_plain)
            if wire != expect:
                ctx.fail(f"C28:hs-wire-neq-ref:{first_diff_region(wire, expect)}", inp, f"xknx {wire.hex()} ref {expect.hex()}")
        except Exception as e:  # noqa: BLE001
            ctx.fail(f"C28:hs-exc:{exc_site(e)}", inp, repr(e))
        # tampered responses
        if dpw is None:
            return
        raw = sid.to_bytes(2, "big") + spub + resp_mac
        for bit in range(len(raw) * 8):
            t = bytearray(raw)
            t[bit >> 3] ^= 1 << (bit & 7)
            region = "session_id" if bit < 16 else "server_key" if bit < 16 + 256 else "mac"
            s2 = session()
            try:
                s2.handshake(SessionResponse(secure_session_id=int.from_bytes(t[:2], "big"), ecdh_server_public_key=bytes(t[2:34]), message_authentication_code=bytes(t[34:])))
            except IPSecureError:
                continue
            except Exception as e:  # noqa: BLE001
                ctx.fail(f"C28:hs-tamper-exc:{exc_site(e)}", {**inp, "bit": bit}, repr(e))
                continue
            ctx.fail(f"C28:hs-tamper-accepted:{region}", {**inp, "bit": bit}, f"SessionResponse with bit {bit} flipped accepted")
        ctx.bulk(len(raw) * 8, len(raw) * 8, "hs-bit-flip")
        # response authenticated with another device code
        other = PASSWORDS[(case["dpw"] + 1) % len(PASSWORDS)]
        s3 = session()
        try:
            s3.handshake(SessionResponse(secure_session_id=sid, ecdh_server_public_key=spub, message_authentication_code=ref.session_response_mac(ref_device(other), sid, cpub, spub)))
            ctx.fail("C28:hs-wrong-device-code-accepted", inp, f"response MAC made with {other!r} accepted by client configured with {dpw!r}")
        except IPSecureError:
            pass
        except Exception as e:  # noqa: BLE001
            ctx.fail(f"C28:hs-tamper-exc:{exc_site(e)}", inp, repr(e))
        ctx.bulk(1, 1, "hs-wrong-device-code")
    finally:
        reset_ids()


async def _settle(n: int = 6) -> None:
    for _ in range(n):
        await asyncio.sleep(0)


def check_e2e(ctx, case: dict) -> None:
    inp = case
    upw = PASSWORDS[case["upw"]]
    dpw = None if case["dpw"] is None else PASSWORDS[case["dpw"]]
    sid, uid, serial, tag = case["sid"], case["uid"], case["serial"], case["tag"]
    priv, cpub = _client_keys(case["cpriv"])
    spub = ref.x25519_public(case["spriv"])
    key = ref.session_key(case["spriv"], cpub)
    dev = ref_device(dpw) if dpw is not None else bytes(16)
    response = ref.header(ref.SESSION_RESPONSE_SERVICE, 0x38) + sid.to_bytes(2, "big") + spub + ref.session_response_mac(dev, sid, cpub, spub)
    bad = case["bad"] if dpw is not None else None
    if bad is not None:
        t = bytearray(response)
        t[6 + (bad >> 3)] ^= 1 << (bad & 7)
        response = bytes(t)
    plains = []
    for spec in case["frames"]:
        try:
            f = build_frame(spec)
        except HarnessError:
            raise
        except Exception:  # noqa: BLE001
            continue
        if plain_ok(f) is not None and not isinstance(f.body, (SessionResponse, SessionStatus)):
            plains.append(f)
    ctx.case((case["cpriv"], case["spriv"], sid, uid, upw, dpw, bad, serial, tag), nontrivial=True, cls=["e2e", "e2e:bad-response" if bad is not None else "e2e:good"],
             sample={"part": "e2e", "sid": sid, "uid": uid, "frames": [type(f.body).__name__ for f in plains], "bad": bad})
    lp = loop()
    tr = FakeTransport()
    proto_box: list = []

    async def fake_create_connection(factory, host=None, port=None, **kw):  # noqa: ANN001
        proto = factory()
        proto.connection_made(tr)
        proto_box.append(proto)
        return tr, proto

    result: dict = {}

    async def scenario() -> None:
        s = SecureSession(remote_addr=("10.1.2.3", 3671), user_id=uid, user_password=upw, device_authentication_password=dpw)
        received: list = []
        s.register_callback(lambda f, src, t_=None: received.append(f))
        task = asyncio.ensure_future(s.connect())
        try:
            await _settle()
            result["request"] = list(tr.writes)
            if len(tr.writes) != 1 or not proto_box:
                return
            proto_box[0].data_received(response)
            await _settle()
            result["after_response"] = list(tr.writes)
            if bad is not None:
                await _settle()
                result["task_done"] = task.done()
                result["task_exc"] = task.exception() if task.done() and not task.cancelled() else None
                result["initialized"] = s.initialized
                return
            if len(tr.writes) != 2:
                return
            sseq = case["sseq"]
            status_ok = ref.header(0x0954, 8) + b"\x00\x00"
            proto_box[0].data_received(ref.wrap(key, sid, sseq.to_bytes(6, "big"), case["sserial"], b"\x00\x00", status_ok))
            await _settle()
            result["task_done"] = task.done()
            result["task_exc"] = task.exception() if task.done() else None
            result["initialized"] = s.initialized
            if not task.done() or task.exception() is not None:
                return
            received.clear()
            n_before = len(tr.writes)
            for f in plains:
                s.send(f)
            result["data_writes"] = tr.writes[n_before:]
            # server -> client data, one TCP chunk carrying all wrappers
            chunk = b"".join(ref.wrap(key, sid, (sseq + 1 + i).to_bytes(6, "big"), case["sserial"], b"\x00\x00", f.to_knx()) for i, f in enumerate(plains))
            proto_box[0].data_received(chunk)
            result["received"] = list(received)
            # replayed wrapper must not be delivered a second time
            received.clear()
            if plains:
                proto_box[0].data_received(ref.wrap(key, sid, (sseq + 1).to_bytes(6, "big"), case["sserial"], b"\x00\x00", plains[0].to_knx()))
            result["replayed"] = list(received)
            n_before = len(tr.writes)
            s.stop()
            result["stop_writes"] = tr.writes[n_before:]
            s = None
        finally:
            if not task.done():
                task.cancel()
            if s is not None:
                try:
                    s.stop()
                except Exception:  # noqa: BLE001
                    pass
            await _settle()

    gen = lambda: (priv, cpub)  # noqa: E731
    saved = ips.generate_ecdh_key_pair
    ips.generate_ecdh_key_pair = gen
    lp.create_connection = fake_create_connection  # type: ignore[method-assign]
    set_ids(serial, tag)
    try:
        lp.run_until_complete(scenario())
    except Exception as e:  # noqa: BLE001
        ctx.fail(f"C28:e2e-exc:{exc_site(e)}", inp, "".join(traceback.format_exception_only(type(e), e)))
        return
    finally:
        reset_ids()
        ips.generate_ecdh_key_pair = saved
        del lp.create_connection
    # SessionRequest: header, TCP route-back HPAI, client public value
    req = result.get("request", [])
    exp_req = ref.header(0x0951, 0x2E) + bytes.fromhex("0802000000000000") + cpub
    if req != [exp_req]:
        ctx.fail("C28:e2e-session-request", inp, f"sent {[w.hex() for w in req]}, expected {exp_req.hex()}")
        return
    after = result.get("after_response", [])
    if bad is not None:
        if len(after) != 1 or result.get("initialized") or not result.get("task_done") or not isinstance(result.get("task_exc"), XKNXException):
            ctx.fail("C28:e2e-bad-response-not-refused", inp, f"writes={len(after)} initialized={result.get('initialized')} done={result.get('task_done')} exc={result.get('task_exc')!r}")
        return
    auth_plain = ref.header(ref.SESSION_AUTHENTICATE_SERVICE, 0x18) + bytes([0, uid]) + ref.session_authenticate_mac(ref_user(upw), uid, cpub, spub)
    exp_auth = ref.wrap(key, sid, bytes(6), serial, tag, auth_plain)
    if len(after) != 2 or after[1] != exp_auth:
        got = after[1].hex() if len(after) > 1 else None
        ctx.fail(f"C28:e2e-authenticate-wire:{first_diff_region(after[1], exp_auth) if len(after) > 1 else 'missing'}", inp, f"xknx {got} ref {exp_auth.hex()}")
        return
    if not result.get("task_done") or result.get("task_exc") is not None or not result.get("initialized"):
        ctx.fail("C28:e2e-connect-not-completed", inp, f"done={result.get('task_done')} exc={result.get('task_exc')!r} initialized={result.get('initialized')}")
        return
    exp_data = [ref.wrap(key, sid, (1 + i).to_bytes(6, "big"), serial, tag, f.to_knx()) for i, f in enumerate(plains)]
    if result.get("data_writes") != exp_data:
        got_w = result.get("data_writes") or []
        reg = "count" if len(got_w) != len(exp_data) else next((first_diff_region(a, b) for a, b in zip(got_w, exp_data) if a != b), "none")
        ctx.fail(f"C28:e2e-data-wire:{reg}", inp, f"xknx {[w.hex() for w in got_w]} ref {[w.hex() for w in exp_data]}")
    rec = result.get("received") or []
    if len(rec) != len(plains) or not all(frames_equal(a, b) for a, b in zip(rec, plains)):
        ctx.fail("C28:e2e-delivery", inp, f"delivered {rec}, expected {plains}")
    if result.get("replayed"):
        ctx.fail("C28:e2e-replay-delivered", inp, f"replayed wrapper delivered again: {result['replayed']}")
    close_plain = ref.header(0x0954, 8) + b"\x05\x00"
    exp_close = [ref.wrap(key, sid, (1 + len(plains)).to_bytes(6, "big"), serial, tag, close_plain)]
    if result.get("stop_writes") != exp_close:
        ctx.fail("C28:e2e-close-wire", inp, f"xknx {[w.hex() for w in result.get('stop_writes') or []]} ref {exp_close[0].hex()}")


def check_timer(ctx, case: dict) -> None:
    inp = case
    key, timer, serial, tag = case["key"], case["timer"], case["serial"], case["tag"]
    tb = timer.to_bytes(6, "big")
    sink: list = []
    set_ids(serial, tag)
    try:
        t = make_timer(key, timer, sink)
        exp_serial = serial if case["explicit"] else REAL_SERIAL  # default argument bound at import
        expect = ref.timer_notify_frame(key, tb, exp_serial, tag)
        ctx.case(expect, nontrivial=True, cls=["timer", "timer:explicit" if case["explicit"] else "timer:default-args"], sample={"part": "timer", "timer": timer, "explicit": case["explicit"]})
        try:
            if case["explicit"]:
                t.send_timer_notify(message_tag=tag, serial_number=serial)
            else:
                t.send_timer_notify()
        except Exception as e:  # noqa: BLE001
            ctx.fail(f"C28:timer-send-exc:{exc_site(e)}", inp, repr(e))
            return
        wire = [f.to_knx() for f in sink]
        if wire != [expect]:
            reg = "count" if len(wire) != 1 else "mac" if wire[0][:20] == expect[:20] else "fields"
            ctx.fail(f"C28:timer-wire-neq-ref:{reg}", inp, f"xknx {[w.hex() for w in wire]} ref {expect.hex()}")
        # verification of the reference frame and of all its single-bit flips (body only: 30 octets)
        body = expect[6:]

        def verify(raw: bytes) -> bool:
            tn = TimerNotify(timer_value=int.from_bytes(raw[:6], "big"), serial_number=raw[6:12], message_tag=raw[12:14], message_authentication_code=raw[14:])
            try:
                t.verify_timer_notify_mac(tn)
            except KNXSecureValidationError:
                return False
            return True

        try:
            if not verify(body):
                ctx.fail("C28:timer-valid-refused", inp, f"reference TimerNotify refused: {expect.hex()}")
            for bit in range(len(body) * 8):
                tt = bytearray(body)
                tt[bit >> 3] ^= 1 << (bit & 7)
                if verify(bytes(tt)):
                    pos = bit >> 3
                    region = "timer" if pos < 6 else "serial" if pos < 12 else "tag" if pos < 14 else "mac"
                    ctx.fail(f"C28:timer-tamper-accepted:{region}", {**inp, "bit": bit}, f"TimerNotify with bit {bit} flipped verified")
            ctx.bulk(len(body) * 8, len(body) * 8, "timer-bit-flip")
            t._backbone_key = bytes([key[0] ^ 1]) + key[1:]
            if verify(body):
                ctx.fail("C28:timer-wrong-key-accepted", inp, "TimerNotify verified under a different backbone key")
        except Exception as e:  # noqa: BLE001
            ctx.fail(f"C28:timer-verify-exc:{exc_site(e)}", inp, repr(e))
        t.stop()
    finally:
        reset_ids()


ORACLES = {"wrap": check_wrap, "hs": check_hs, "e2e": check_e2e, "timer": check_timer}


def oracle(ctx, case: dict) -> None:
    ORACLES[case["part"]](ctx, case)


# ---------------------------------------------------------------------------


def selftest(ctx) -> None:
    ref.selftest()
    # the harness' own steering: a session built here must emit what the AN159 example says
    p = apply_patches()
    try:
        set_ids(bytes.fromhex("00fa12345678"), bytes.fromhex("affe"))
        g = make_group(bytes(range(16)), 0xC0C1C2C3C4C5)
        try:
            if g.get_sequence_information() != bytes.fromhex("c0c1c2c3c4c5") or g.get_message_tag() != bytes.fromhex("affe"):
                raise HarnessError("steering of SecureGroup sequence information / message tag does not work")
        finally:
            g.secure_timer.stop()
    finally:
        reset_ids()
        p.restore()
        close_loop()


def close_loop() -> None:
    global _LOOP
    if _LOOP is not None and not _LOOP.is_closed():
        _LOOP.close()
    _LOOP = None


def _shard(ctx, n_wrap: int, n_hs: int, n_e2e: int, n_timer: int) -> None:
    global _LOOP
    _LOOP = None  # never share an event loop (epoll fd) with the parent process
    p = apply_patches()
    try:
        hyp_search(ctx, st_wrap, oracle, n_wrap, seed_salt=1)
        hyp_search(ctx, st_hs, oracle, n_hs, seed_salt=2)
        hyp_search(ctx, st_e2e, oracle, n_e2e, seed_salt=3)
        hyp_search(ctx, st_timer, oracle, n_timer, seed_salt=4)
    finally:
        reset_ids()
        p.restore()
        close_loop()


def run(ctx) -> None:
    for pw in PASSWORDS:  # warm the reference caches before forking
        ref_user(pw)
        ref_device(pw)
    shards = 16 if ctx.quick else 48
    per = (ctx.n(60, 400), ctx.n(12, 60), ctx.n(12, 60), ctx.n(30, 150))
    # Hypothesis calls gc.collect() per run; in a forked worker that touches (copies) every page of
    # the inherited heap. Freezing the parent's objects keeps the workers' collections cheap.
    gc.collect()
    gc.freeze()
    try:
        parallel(ctx, _shard, [per] * shards)
    finally:
        gc.unfreeze()
    ctx.notes["passwords_in_pool"] = len(PASSWORDS)
    ctx.notes["frame_types"] = len(FRAME_TYPES)


def replay(ctx, case) -> None:
    if not isinstance(case, dict) or case.get("part") not in ORACLES:
        return
    case = {k: v for k, v in case.items() if k != "bit"}
    p = apply_patches()
    try:
        oracle(ctx, case)
    finally:
        reset_ids()
        p.restore()
        close_loop()
