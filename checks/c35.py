"""C35 - the state updater reads exactly when its tracking policy says.

A real XKNX (started queue, task registry, state updater) runs on the virtual-time loop over
the stub interface. Switch devices with a state address and a tracker option (`init`,
`expire <min>`, `every <min>`, True, a number) are added / removed, the connection is
switched on and off, state telegrams arrive spontaneously, virtual time passes - all from a
history generated as data:

    ["sleep", seconds] ["connect"] ["disconnect"] ["connecting"] ["add", d] ["remove", d] ["state", d, 0|1]
    ["traffic", n, "delay"|"noconfirm", x]   n outgoing GroupValueWrite telegrams to unrelated addresses whose
                                             sends take x seconds on the interface / get no confirmation (3 s timeout),
                                             i.e. the outgoing queue is not empty while trackers start or are stopped

A simulated bus answers every GroupValueRead seen by the stub according to a generated plan
(response after a latency, no response, response after the 2 s read timeout). The oracle is a
set of validity predicates over the log of GroupValueRead telegrams queued on xknx.telegrams (virtual
time, destination; each is answered when it reaches the stub), the log of delivered state telegrams and the entry/exit log of ValueReader.read.
"""

from __future__ import annotations

import asyncio
import math
from unittest.mock import patch

from hypothesis import strategies as st

from vk.core import exc_site
from vk.engine import hyp_search, parallel
from vk.vloop import BudgetExceeded, Deadlock, run_case

PROPERTY = "C35"
LEVEL = "exploration"
TECHNIQUE = "property-based testing (Hypothesis) of generated connect/disconnect/state/registration histories on a real StateUpdater in virtual time with a simulated bus; validity predicates over the GroupValueRead log"
RULE = (
    "case = (1-5 Switch devices with tracker options from {init, expire 1|2, every 1|2|3, expire, every, True, 2, 1.5, no state address, sync_state False}, "
    "up to 16 ops connect | disconnect | connecting | add | remove | state telegram | 1-3 slow/unconfirmed outgoing telegrams (also as 'jam' sequences: traffic, (re)connect or add, then disconnect / remove / state telegram while the queue is still blocked) separated by virtual sleeps of 0.3 s .. 62 min, bus answer plan per read: response latency / none / late); "
    "non-trivial = at least one session (value registered while connected) of an expire/every tracker that lasts longer than its interval, or a reconnection, or a state telegram inside a session; distinct by case"
)
LEVEL_TEXT = (
    "Generated histories were run against the real StateUpdater/ValueReader/telegram queue in virtual time; every GroupValueRead the state updater queued (xknx.telegrams) was checked against validity predicates "
    "derived from the statement (only while connected and registered, one initial read per session, expire/every/init timing with stated slack, at most two ValueReader.read in progress). Sampled histories can refute, not prove."
)
LEVEL_NOTE = "Virtual time; stub interface confirms every frame; the simulated bus answers per a generated plan; slack constants are listed in the assumptions."
ASSUMPTIONS = [
    "tracker options and their meaning as documented: 'init' | 'expire [min]' | 'every [min]' | True (= expire 60) | number (= expire <number> minutes); intervals are minutes; only values within the documented 1..1440 range are generated",
    "a 'session' of a value = maximal span in which it is registered (device added) and the connection state is CONNECTED; ops are at least 0.3 s apart; a read within 1e-6 s of a session boundary is accepted on either side",
    "initial read: required within 2 s x (ceil(devices/2) + 1) + 0.5 s after session start (two reads at a time, each at most the 2 s read timeout, plus reads left over from a previous session) if the session lasts that long; the first read of a session is the initial read",
    "expire: the initial read is not demanded when a state telegram for the value arrives within the initial-read slack after session start (the value is fresh; the tracker restarts its interval instead)",
    "expire: a further read is accepted only if >= interval after the later of session start and the last state telegram delivered to the value in that session; the gap between consecutive events (reads, state telegrams) of a session must not exceed interval + 2 s + initial-read slack",
    "every: consecutive reads of a session are >= interval and <= interval + 2 s + initial-read slack apart (the period restarts when a read finishes, a read takes at most the 2 s timeout plus queueing)",
    "state telegram = GroupValueWrite/GroupValueResponse with a 1-bit payload to the state address, delivered through the cEMI receive path; answers of the simulated bus are dropped while disconnected",
    "a read is issued when its GroupValueRead is put on xknx.telegrams (recording wrapper on the queue); reads in progress = calls of ValueReader.read between entry and exit (recording wrapper)",
    "other outgoing traffic ('traffic' op: sends that take 0.5-5 s on the interface or wait 3 s for a missing confirmation) legitimately delays reads: every deadline above is extended by the time the outgoing queue held such a telegram between the anchor and the deadline",
    "every device has its own state address; rate limit 0",
]

EPS = 1e-6
READ_TIMEOUT = 2.0
CONFIRM_TIMEOUT = 3.0  # xknx.cemi.cemi_handler.REQUEST_TO_CONFIRMATION_TIMEOUT
TRAFFIC_BASE = 0x2000  # 4/0/x: unrelated outgoing traffic
# option -> (type, minutes) written from the documentation of sync_state
OPTIONS = {
    "init": ("init", 60),
    "expire 1": ("expire", 1),
    "expire 2": ("expire", 2),
    "expire": ("expire", 60),
    "every 1": ("every", 1),
    "every 2": ("every", 2),
    "every 3": ("every", 3),
    "every": ("every", 60),
    "true": ("expire", 60),
    "num 2": ("expire", 2),
    "num 1.5": ("expire", 1.5),
    "false": None,  # sync_state=False: never read
    "nostate": None,  # no state address: never read
}
SLEEPS = [0.3, 1.0, 2.5, 10.0, 30.0, 58.0, 60.5, 62.0, 90.0, 119.0, 121.0, 185.0, 400.0, 3700.0]


def _sync_state(opt: str):
    if opt == "true":
        return True
    if opt == "false":
        return False
    if opt.startswith("num "):
        v = float(opt[4:])
        return int(v) if v == int(v) else v
    if opt == "nostate":
        return "expire 1"
    return opt


def _addr(d: int) -> int:
    return 0x0900 + d  # 1/1/d


def slack_init(ndev: int) -> float:
    return READ_TIMEOUT * (math.ceil(ndev / 2) + 1) + 0.5


# --------------------------------------------------------------------------- execution
def execute(case):
    from xknx.core.value_reader import ValueReader
    from xknx.devices import Switch
    from xknx.dpt import DPTBinary
    from xknx.telegram import GroupAddress, Telegram, TelegramDirection
    from xknx.telegram.apci import GroupValueRead, GroupValueResponse, GroupValueWrite
    from xknx.core import XknxConnectionState

    devs = case["devs"]
    res: dict = {"reads": [], "updates": [], "ops": [], "sent_reads": [], "rw": [], "other_reads": [], "errors": [], "traffic": []}
    saved_fmt = GroupAddress.address_format
    state = {"loop": None, "done": False}
    orig_read = ValueReader.read

    async def rec_read(self):
        loop = state["loop"]
        key = id(self)
        res["rw"].append((loop.time(), loop.tick, +1, self.group_address.raw if hasattr(self.group_address, "raw") else None, key))
        try:
            return await orig_read(self)
        finally:
            res["rw"].append((loop.time(), loop.tick, -1, self.group_address.raw if hasattr(self.group_address, "raw") else None, key))

    async def scenario(loop):
        from vk.xharness import XH

        state["loop"] = loop
        h = await XH.create(loop, rate_limit=0)
        xknx = h.xknx
        connected = [False]
        by_addr = {_addr(d): d for d in range(len(devs))}
        answers = case["answers"]
        objs = []
        for d, spec in enumerate(devs):
            opt = spec["opt"]
            kw = {"group_address": GroupAddress(0x1000 + d)}
            if opt != "nostate":
                kw["group_address_state"] = GroupAddress(_addr(d))
            objs.append(Switch(xknx, f"d{d}", sync_state=_sync_state(opt), **kw))
        present: set[int] = set()

        def deliver(d: int, value: int, response: bool) -> None:
            if state["done"] or not connected[0]:
                return
            res["updates"].append((loop.time(), d))
            payload = GroupValueResponse(DPTBinary(value)) if response else GroupValueWrite(DPTBinary(value))
            h.inject_ind(Telegram(destination_address=GroupAddress(_addr(d)), payload=payload))

        def on_sent(cemi) -> None:
            if state["done"]:
                return
            try:
                tg = cemi.data.telegram()
            except Exception:  # noqa: BLE001
                return
            if not isinstance(tg.payload, GroupValueRead):
                return
            raw = getattr(tg.destination_address, "raw", None)
            if raw not in by_addr:
                res["other_reads"].append((loop.time(), str(tg.destination_address)))
                return
            idx = len(res["sent_reads"])
            res["sent_reads"].append((loop.time(), by_addr[raw]))
            plan = answers[idx] if idx < len(answers) else ["resp", 0.05]
            if plan[0] != "none":
                loop.call_later(float(plan[1]), deliver, by_addr[raw], idx & 1, True)

        h.stub.on_sent = on_sent
        # a read is "issued" when its GroupValueRead is put on xknx.telegrams (the property's observation point);
        # it reaches the stub later when other outgoing traffic is ahead of it in the queue
        orig_put = xknx.telegrams.put_nowait

        def rec_put(item):
            if item is not None and not state["done"] and isinstance(item.payload, GroupValueRead) and item.direction is TelegramDirection.OUTGOING:
                raw = getattr(item.destination_address, "raw", None)
                if raw in by_addr:
                    res["reads"].append((loop.time(), by_addr[raw]))
            return orig_put(item)

        xknx.telegrams.put_nowait = rec_put  # type: ignore[method-assign]
        pending_plans: list = []  # FIFO of [put_index, kind, x] for traffic telegrams not yet on the interface

        def behaviour(idx, cemi):
            raw = getattr(getattr(cemi.data, "dst_addr", None), "raw", None)
            if raw is None or not (TRAFFIC_BASE <= raw < TRAFFIC_BASE + 0x100) or not pending_plans:
                return {}
            k, tkind, x = pending_plans.pop(0)
            if tkind == "noconfirm":
                res["traffic"][k][1] = loop.time() + CONFIRM_TIMEOUT
                return {"confirm": False}
            res["traffic"][k][1] = loop.time() + float(x)
            return {"delay": float(x)}

        h.stub.behaviour = behaviour
        for d, spec in enumerate(devs):
            if spec.get("present"):
                xknx.devices.async_add(objs[d])
                present.add(d)
        for op in case["ops"]:
            kind = op[0]
            if kind == "sleep":
                await asyncio.sleep(float(op[1]))
                continue
            res["ops"].append((loop.time(), op))
            if kind == "connect":
                connected[0] = True
                h.connect()
            elif kind == "disconnect":
                connected[0] = False
                h.disconnect()
            elif kind == "connecting":
                connected[0] = False
                xknx.connection_manager.connection_state_changed(XknxConnectionState.CONNECTING)
            elif kind == "add":
                d = op[1] % len(devs)
                if d not in present:
                    present.add(d)
                    xknx.devices.async_add(objs[d])
            elif kind == "remove":
                d = op[1] % len(devs)
                if d in present:
                    present.discard(d)
                    xknx.devices.async_remove(objs[d])
            elif kind == "state":
                deliver(op[1] % len(devs), int(op[2]) & 1, False)
            elif kind == "traffic":
                for j in range(int(op[1])):
                    k = len(res["traffic"])
                    res["traffic"].append([loop.time(), None])  # [queued at, leaves the outgoing queue at (None = not yet)]
                    pending_plans.append([k, op[2], op[3]])
                    xknx.telegrams.put_nowait(Telegram(destination_address=GroupAddress(TRAFFIC_BASE + (k & 0xFF)), payload=GroupValueWrite(DPTBinary(j & 1))))
            await asyncio.sleep(0)
        res["horizon"] = loop.time()
        state["done"] = True
        try:
            await asyncio.wait_for(h.close(), 60)
        except TimeoutError:
            res["errors"].append("close-timeout")
        xknx.started.clear()
        return None

    try:
        with patch.object(ValueReader, "read", rec_read):
            _, loop = run_case(scenario, max_iters=600_000)
    finally:
        GroupAddress.address_format = saved_fmt
    res["escaped"] = loop.escaped
    return res


# --------------------------------------------------------------------------- reference
def sessions(case, op_times):
    """Spans in which each value is registered and the connection is up, from the recorded op times."""
    devs = case["devs"]
    n = len(devs)
    tracked = [OPTIONS[s["opt"]] is not None for s in devs]
    present = {d for d, s in enumerate(devs) if s.get("present")}
    connected = False
    open_: dict[int, float] = {}
    out: dict[int, list] = {d: [] for d in range(n)}
    conn_spans: list = []
    conn_start = None
    for t, op in op_times:
        kind = op[0]
        if kind == "connect":
            if not connected:
                connected = True
                conn_start = t
                for d in sorted(present):
                    if tracked[d]:
                        open_[d] = t
        elif kind in ("disconnect", "connecting"):
            if connected:
                connected = False
                conn_spans.append((conn_start, t))
                for d in sorted(open_):
                    out[d].append((open_[d], t, "conn"))
                open_.clear()
        elif kind == "add":
            d = op[1] % n
            if d not in present:
                present.add(d)
                if connected and tracked[d]:
                    open_[d] = t
        elif kind == "remove":
            d = op[1] % n
            if d in present:
                present.discard(d)
                if d in open_:
                    out[d].append((open_.pop(d), t, "removed"))
    return out, open_, conn_spans, (conn_start if connected else None)


def judge(ctx, case, res) -> bool:
    devs = case["devs"]
    n = len(devs)
    horizon = res["horizon"]
    sess, still_open, conn_spans, conn_open = sessions(case, res["ops"])
    for d, s in still_open.items():
        sess[d].append((s, horizon, "end"))
    if conn_open is not None:
        conn_spans.append((conn_open, horizon))
    s_init = slack_init(n)
    s_live = READ_TIMEOUT + s_init
    # spans in which the outgoing queue was legitimately not empty (reads wait for it to drain)
    busy = sorted((a, (b if b is not None else float("inf"))) for a, b in res.get("traffic", []))

    def deadline(a: float, allowance: float) -> float:
        """a + allowance, extended by the time the outgoing queue was blocked by other traffic in between."""
        d = a + allowance
        for _ in range(len(busy) + 1):
            blocked = 0.0
            cur = a
            for b0, b1 in busy:  # measure of the union of busy spans within [a, d]
                lo, hi = max(b0, cur), min(b1, d)
                if hi > lo:
                    blocked += hi - lo
                    cur = hi
            d2 = a + allowance + blocked
            if d2 <= d + EPS:
                break
            d = d2
        return d
    for e in res["errors"]:
        ctx.fail(f"C35:{e}", case, "xknx.stop() did not return within 60 virtual seconds")
    for e in res["escaped"]:
        ctx.fail(f"C35:escaped:{type(e['exception']).__name__}", case, e["repr"] + " " + e["message"])
    for t, a in res["other_reads"]:
        ctx.fail("C35:read-of-foreign-address", case, f"GroupValueRead to {a} at {t}: not a registered state address")
    nontrivial = len(conn_spans) >= 2
    for d in range(n):
        opt = devs[d]["opt"]
        pol = OPTIONS[opt]
        rd = sorted(t for t, dd in res["reads"] if dd == d)
        up = sorted(t for t, dd in res["updates"] if dd == d)
        spans = sess[d]
        # ---- no read while disconnected / unregistered / untracked
        assigned: dict[int, list] = {k: [] for k in range(len(spans))}
        for t in rd:
            ks = [k for k, (s, e, _) in enumerate(spans) if s - EPS <= t <= e + EPS]
            if ks:
                assigned[ks[-1]].append(t)
                continue
            if pol is None:
                why = "untracked-value"
            elif not any(s - EPS <= t <= e + EPS for s, e in conn_spans):
                why = "while-disconnected"
            else:
                why = "unregistered-value"
            ctx.fail(f"C35:read-outside-session:{why}", case, f"device {d} ({opt}): GroupValueRead at {t:.6f}, sessions {[(round(s, 3), round(e, 3)) for s, e, _ in spans]}")
        if pol is None:
            continue
        typ, minutes = pol
        interval = minutes * 60.0
        for k, (s, e, _why) in enumerate(spans):
            rs = assigned[k]
            us = [u for u in up if s - EPS <= u <= e + EPS]
            if us:
                nontrivial = True
            if typ != "init" and e - s > interval:
                nontrivial = True
            span = f"session [{s:.3f}, {e:.3f}] of device {d} ({opt}); reads {[round(x, 3) for x in rs]}; state telegrams {[round(x, 3) for x in us]}"
            # ---- exactly one initial read
            d_init = deadline(s, s_init)
            preempted = typ == "expire" and any(u <= d_init + EPS for u in us)  # fresh state arrived while the initial read was queued
            if e > d_init + EPS and (not rs or rs[0] > d_init + EPS) and not preempted:
                ctx.fail(f"C35:no-initial-read:{typ}", case, f"no read until {d_init:.3f} (session start + {s_init} s slack + time the outgoing queue was blocked); {span}; outgoing queue blocked {[(round(a, 3), round(b, 3)) for a, b in busy]}")
                continue
            if not rs:
                continue
            if typ == "init":
                if len(rs) > 1:
                    ctx.fail("C35:init-read-again", case, f"'init' tracker read {len(rs)} times in one session; {span}")
                continue
            if typ == "expire":
                for r in rs[1:]:
                    anchor = max([s] + [u for u in us if u < r - EPS])
                    if r < anchor + interval - EPS:
                        prev_reads = [x for x in rs if x < r]
                        cause = "after-state-update" if anchor > s + EPS and anchor > max(prev_reads) + READ_TIMEOUT + EPS else "after-read"
                        ctx.fail(f"C35:expire-read-too-early:{cause}", case, f"read at {r:.3f} only {r - anchor:.3f} s after the last state update / session start at {anchor:.3f} (interval {interval}); {span}")
                        break
                ev = sorted(rs + us)
                for a, b in zip(ev, ev[1:] + [e]):
                    if b > deadline(a, interval + s_live) + EPS:
                        ctx.fail("C35:expire-read-overdue", case, f"nothing between {a:.3f} and {b:.3f} (> interval {interval} + slack {s_live} + blocked-queue time); {span}")
                        break
            else:  # every
                bad = False
                for a, b in zip(rs, rs[1:]):
                    if b - a < interval - EPS:
                        ctx.fail("C35:every-read-too-early", case, f"reads at {a:.3f} and {b:.3f} are {b - a:.3f} s apart (interval {interval}); {span}")
                        bad = True
                        break
                    if b > deadline(a, interval + s_live) + EPS:
                        ctx.fail("C35:every-read-overdue", case, f"reads at {a:.3f} and {b:.3f} are {b - a:.3f} s apart (interval {interval} + slack {s_live} + blocked-queue time); {span}")
                        bad = True
                        break
                if not bad and e > deadline(rs[-1], interval + s_live) + EPS:
                    ctx.fail("C35:every-read-overdue", case, f"no read between {rs[-1]:.3f} and the session end {e:.3f}; {span}")
    # ---- at most two reads in progress
    active: dict[int, tuple] = {}
    stops = sorted([t for t, op in res["ops"] if op[0] in ("disconnect", "connecting", "remove")])
    for t, _tick, delta, raw, key in res["rw"]:
        if delta > 0:
            active[key] = (t, raw)
            if len(active) > 2:
                # root-cause split: does a read that outlived the stop of its tracker occupy a slot?
                orphan = any(any(t0 - EPS <= x <= t + EPS for x in stops) for k2, (t0, _r) in active.items() if k2 != key)
                cause = "read-outlives-stopped-tracker" if orphan else "plain"
                ctx.fail(f"C35:more-than-two-reads:{cause}", case, f"{len(active)} ValueReader.read in progress at {t:.6f}: started {[round(v[0], 3) for v in active.values()]}")
                break
        else:
            active.pop(key, None)
    return nontrivial


def check_case(ctx, case) -> bool:
    try:
        res = execute(case)
    except (BudgetExceeded, Deadlock):
        ctx.notes["inconclusive"] = ctx.notes.get("inconclusive", 0) + 1
        return False
    except Exception as e:  # noqa: BLE001
        ctx.fail(f"C35:scenario-exc:{exc_site(e)}", case, repr(e))
        return False
    ctx.notes["reads_observed"] = ctx.notes.get("reads_observed", 0) + len(res["reads"])
    return judge(ctx, case, res)


# --------------------------------------------------------------------------- strategies
_I = st.integers
OPT_POOL = ["init", "expire 1", "expire 1", "expire 2", "every 1", "every 1", "every 2", "every 3", "expire", "every", "true", "num 2", "num 1.5", "false", "nostate"]


def _pick(draw, seq):
    return seq[draw(_I(0, len(seq) - 1))]


@st.composite
def cases(draw):
    n = draw(_I(1, 5))
    devs = [{"opt": _pick(draw, OPT_POOL), "present": draw(_I(0, 3)) > 0} for _ in range(n)]
    ops: list = []
    if draw(_I(0, 3)) > 0:
        ops.append(["connect"])
    for _ in range(draw(_I(1, 16))):
        k = draw(_I(0, 14))
        # bias towards long sleeps so that intervals elapse
        ops.append(["sleep", _pick(draw, SLEEPS)])
        if k <= 1:
            ops.append(["connect"])
        elif k == 2:
            ops.append(["disconnect"])
        elif k == 3:
            ops.append(["connecting"] if draw(_I(0, 2)) == 0 else ["disconnect"])
        elif k == 4:
            ops.append(["add", draw(_I(0, n - 1))])
        elif k == 5:
            ops.append(["remove", draw(_I(0, n - 1))])
        elif k <= 8:
            ops.append(["state", draw(_I(0, n - 1)), draw(_I(0, 1))])
        elif k == 9:
            # connection flap / quick re-registration while reads may still be pending
            j = draw(_I(0, 2))
            d = draw(_I(0, n - 1))
            first, second = [(["disconnect"], ["connect"]), (["remove", d], ["add", d]), (["connect"], ["remove", d])][j]
            ops += [first, ["sleep", _pick(draw, [0.3, 1.0, 2.5])], second]
        elif k in (10, 11):
            # jam: trackers start while the outgoing queue is blocked and are stopped before it drains
            d = draw(_I(0, n - 1))
            traffic = ["traffic", draw(_I(1, 3)), "noconfirm", 0] if draw(_I(0, 2)) == 0 else ["traffic", draw(_I(1, 3)), "delay", _pick(draw, [0.5, 1.5, 5.0])]
            starter = ["add", d] if draw(_I(0, 3)) == 0 else ["connect"]
            stopper = _pick(draw, [["disconnect"], ["disconnect"], ["remove", d], ["state", d, 1], ["connecting"]])
            if starter == ["connect"]:
                ops += [["disconnect"], ["sleep", 0.3]]
            ops += [traffic, ["sleep", 0.3], starter, ["sleep", _pick(draw, [0.3, 1.0])], stopper]
            if draw(_I(0, 1)):
                ops += [["sleep", _pick(draw, [10.0, 30.0])], ["connect"]]
        elif k == 12:
            ops.append(["traffic", draw(_I(1, 3)), _pick(draw, ["delay", "delay", "noconfirm"]), _pick(draw, [0.5, 1.5, 5.0])])
        # else: only time passes
    ops.append(["sleep", _pick(draw, SLEEPS)])
    answers = []
    for _ in range(draw(_I(0, 12))):
        k = draw(_I(0, 7))
        if k <= 3:
            answers.append(["resp", _pick(draw, [0.01, 0.05, 0.4, 1.5])])
        elif k <= 5:
            answers.append(["none", 0])
        else:
            answers.append(["late", _pick(draw, [2.5, 5.0])])
    return {"devs": devs, "ops": ops, "answers": answers}


def _labels(case):
    lab = sorted({"opt:" + d["opt"] for d in case["devs"]})
    kinds = {op[0] for op in case["ops"]}
    lab += sorted("op:" + k for k in kinds if k != "sleep")
    lab += sorted({"answer:" + a[0] for a in case["answers"]})
    lab.append(f"devices:{len(case['devs'])}")
    return lab


def _hyp_oracle(ctx, case) -> None:
    nt = check_case(ctx, case)
    ctx.case(repr(case), nontrivial=nt, cls=_labels(case), sample=case if nt and len(case["ops"]) >= 12 else None)


def _hyp_shard(ctx, n: int) -> None:
    hyp_search(ctx, cases(), _hyp_oracle, n)


FIXED = [
    # the documented timelines: expire 2 / every 3 / init read at 0, +120 s after the last update, every 180 s, once more after a reconnect
    {
        "devs": [{"opt": "expire 2", "present": True}, {"opt": "every 3", "present": True}, {"opt": "init", "present": True}],
        "ops": [["connect"], ["sleep", 400.0], ["state", 0, 1], ["sleep", 400.0], ["disconnect"], ["sleep", 30.0], ["connect"], ["sleep", 400.0]],
        "answers": [],
    },
    # trackers start while a slow outgoing telegram blocks the queue and are stopped before it drains; reconnect later
    {
        "devs": [{"opt": "expire 1", "present": True}, {"opt": "every 1", "present": True}, {"opt": "init", "present": True}],
        "ops": [["traffic", 1, "delay", 5.0], ["sleep", 0.3], ["connect"], ["sleep", 1.0], ["disconnect"], ["sleep", 10.0], ["connect"], ["sleep", 185.0]],
        "answers": [],
    },
    # five values, nobody answers: two reads at a time
    {"devs": [{"opt": "expire 1", "present": True}] * 5, "ops": [["connect"], ["sleep", 185.0]], "answers": [["none", 0]] * 40},
]


def selftest(ctx) -> None:
    c = FIXED[0]
    times = [(0.0, ["connect"]), (400.0, ["state", 0, 1]), (800.0, ["disconnect"]), (830.0, ["connect"])]
    sess, still, conn, copen = sessions(c, times)
    assert sess[0] == [(0.0, 800.0, "conn")] and still == {0: 830.0, 1: 830.0, 2: 830.0} and conn == [(0.0, 800.0)] and copen == 830.0
    assert slack_init(3) == 6.5 and slack_init(5) == 8.5


def run(ctx) -> None:
    for c in FIXED:
        nt = check_case(ctx, c)
        ctx.case(repr(c), nontrivial=nt, cls="fixed-example")
    parallel(ctx, _hyp_shard, [(ctx.n(200, 4000),)] * 16)


def replay(ctx, case) -> None:
    check_case(ctx, case)
