"""C46 - automatic connection never downgrades a secured gateway.

Gateways are described by capability flags (core version, routing, tunnelling version, security
family, secured-service-families DIB absent / empty / tunnelling / routing / both).  From the flags
the harness writes real KNXnet/IP SearchResponse(Extended) frames byte by byte (layout from the
KNXnet/IP core spec, not with the xknx encoders), parses them with KNXIPFrame.from_knx and feeds
them to the real GatewayScanner response callback (only the network part GatewayScanner._scan is
replaced).  KNXIPInterface.start() runs for real in AUTOMATIC mode; the five interface classes it
would instantiate (UDPTunnel, TCPTunnel, SecureTunnel, Routing, SecureRouting) are replaced by
recording stubs whose connect() succeeds or raises CommunicationError as the case says.

Oracles (from the property statement, computed from the flags, never from the descriptor):
 * no UDPTunnel / TCPTunnel connect to a gateway that announces tunnelling as secured, no Routing
   connect on behalf of a gateway that announces routing as secured;
 * GatewayScanFilter.match(descriptor) == (name ok and some enabled method is supported and its
   security requirement agrees), and the scanner's found set equals that predicate.
"""

from __future__ import annotations

import asyncio
import gc
import itertools
import sys

from hypothesis import strategies as st

from vk.core import HarnessError, exc_site
from vk.engine import hyp_search, parallel
from xknx import XKNX
from xknx.exceptions import CommunicationError, XKNXException
from xknx.io import gateway_scanner as GS
from xknx.io import knxip_interface as KI
from xknx.io.connection import ConnectionConfig, ConnectionType, SecureConfig
from xknx.knxip import HPAI, KNXIPFrame
from xknx.secure.keyring import InterfaceType, Keyring, XMLInterface
from xknx.telegram import IndividualAddress

PROPERTY = "C46"
LEVEL = "exploration"
TECHNIQUE = "exhaustive enumeration of capability/filter/keyring configurations with recording stub interfaces + Hypothesis multi-gateway scans"
LEVEL_TEXT = (
    "Every combination of gateway capability flags x scan filter flags x secure configuration x connect "
    "outcome was run through the real automatic-start logic for single-gateway scans (exhaustive: true for "
    "that product) and the scan filter was compared with the reference predicate on every flags x filter "
    "pair; scans with 2-3 gateways are sampled."
)
LEVEL_NOTE = (
    "Trusted base: the frame writer and the reference predicate in this module (self-tested); the network "
    "part of GatewayScanner and the five interface classes are stubs, so what the tunnels / routing objects "
    "do after connect() is out of scope. KNXIPInterfaceThreaded is not exercised."
)
RULE = (
    "single-gateway scans: full product of 180 gateway variants (2 core versions x routing x tunnelling "
    "version absent/1/2 x security family x 5 secured-families DIB states, core-2 devices answering with "
    "extended + plain response in both orders) x 96 filters x 7 secure configurations x connect ok/fails (the failing variant is run only where a connect is attempted at all); "
    "filter predicate: 120 flag sets x 96 filters; multi-gateway scans drawn by Hypothesis. A scan is "
    "non-trivial when a gateway announcing a secured service passes the reference filter and is not excluded "
    "by the keyring host filter (so the automatic logic had to choose a method for it); a filter pair is "
    "non-trivial when the gateway announces a secured family or the filter is neither all-on nor all-off; "
    "enumerated cases are distinct by construction"
)
ASSUMPTIONS = [
    "a gateway 'announces a service as secured' iff its SearchResponseExtended carries a secured-service-families DIB listing that family",
    "secure tunnelling counts as supported iff tunnelling version >= 2 (TCP), secure routing iff routing is listed; the SECURITY family entry is not required by the reference predicate",
    "a Core-V2 device also answers with a plain SearchResponse (no secured-families DIB); the reference ignores it as the scanner is documented to do",
    "a Routing connection is attributed to the gateway _start_automatic was processing when it was opened",
]

NAME = "gw"
SECURED = ("absent", "none", "T", "R", "TR")
METHODS = ("tunnelling", "tunnelling_tcp", "routing", "secure_tunnelling", "secure_routing")
SECURE_CFGS = ("none", "user", "keyring:0", "keyring:9", "keyring-empty", "keyring-ia:0", "keyring-ia-missing")


# --------------------------------------------------------------------------- reference
def ref_secured(g) -> dict:
    return {"T": g["secured"] in ("T", "TR"), "R": g["secured"] in ("R", "TR")}


def ref_supported(g) -> dict:
    tun, rt = g["tunnelling"], g["routing"]
    return {"tunnelling": tun >= 1, "tunnelling_tcp": tun >= 2, "routing": rt >= 1, "secure_tunnelling": tun >= 2, "secure_routing": rt >= 1}


_REQ = {"tunnelling": ("T", False), "tunnelling_tcp": ("T", False), "routing": ("R", False), "secure_tunnelling": ("T", True), "secure_routing": ("R", True)}


def ref_filter(g, f) -> bool:
    """name ok and some enabled method: supported and security requirement agrees."""
    if f.get("name") == "mismatch":
        return False
    sup, sec = ref_supported(g), ref_secured(g)
    return any(bool(f[m]) and sup[m] and sec[_REQ[m][0]] == _REQ[m][1] for m in METHODS)


def gw_ip(k: int) -> str:
    return f"10.0.0.{k + 1}"


def gw_ia(k: int) -> int:
    return 0x1001 + k  # 1.0.1, 1.0.2, ...


def slot_ia(k: int) -> int:
    return 0x100A + k  # 1.0.10, ...


# --------------------------------------------------------------------------- frame writer (by layout)
def _hpai(ip: str, port: int) -> bytes:
    return bytes((8, 1)) + bytes(int(x) for x in ip.split(".")) + port.to_bytes(2, "big")


def _devinfo(ia: int, name: str) -> bytes:
    out = bytes((54, 0x01, 0x02, 0x00)) + ia.to_bytes(2, "big") + bytes(2) + bytes((0, 1, 2, 3, 4, ia & 0xFF)) + bytes((224, 0, 23, 12)) + bytes(6) + name.encode("latin_1").ljust(30, b"\0")
    assert len(out) == 54
    return out


def _families(type_code: int, pairs) -> bytes:
    return bytes((2 + 2 * len(pairs), type_code)) + b"".join(bytes(p) for p in pairs)


def _tunnel_info(slot: int) -> bytes:
    return bytes((8, 0x07, 0x00, 0xF8)) + slot.to_bytes(2, "big") + bytes((0x00, 0b101))  # usable, free


def _frame(service: int, body: bytes) -> bytes:
    return bytes((0x06, 0x10)) + service.to_bytes(2, "big") + (6 + len(body)).to_bytes(2, "big") + body


def gateway_frames(g, k: int) -> list[bytes]:
    """Raw response frames a gateway with flags g sends, in arrival order."""
    supp = [(0x02, g["core"]), (0x03, 1)]
    if g["tunnelling"]:
        supp.append((0x04, g["tunnelling"]))
    if g["routing"]:
        supp.append((0x05, g["routing"]))
    if g["security"]:
        supp.append((0x09, 1))
    head = _hpai(gw_ip(k), 3671) + _devinfo(gw_ia(k), NAME) + _families(0x02, supp)
    ext_body = head
    if g["secured"] != "absent":
        sec = []
        if "T" in g["secured"]:
            sec.append((0x04, 1))
        if "R" in g["secured"]:
            sec.append((0x05, 1))
        ext_body += _families(0x06, sec)
    ext_body += _tunnel_info(slot_ia(k))
    ext = _frame(0x020C, ext_body)
    plain = _frame(0x0202, head)
    if g["core"] >= 2:
        return [plain, ext] if g.get("plain_first") else [ext, plain]
    if g["secured"] == "absent":
        return [plain]
    return [ext]


def selftest(ctx) -> None:
    g = {"core": 2, "routing": 1, "tunnelling": 2, "security": 1, "secured": "T"}
    assert ref_filter(g, {"name": None, "tunnelling": False, "tunnelling_tcp": False, "routing": False, "secure_tunnelling": True, "secure_routing": False})
    assert not ref_filter(g, {"name": None, "tunnelling": True, "tunnelling_tcp": True, "routing": False, "secure_tunnelling": False, "secure_routing": True})
    assert ref_filter(g, {"name": None, "tunnelling": False, "tunnelling_tcp": False, "routing": True, "secure_tunnelling": False, "secure_routing": False})
    assert not ref_filter(g, {"name": "mismatch", "tunnelling": True, "tunnelling_tcp": True, "routing": True, "secure_tunnelling": True, "secure_routing": True})
    g1 = {"core": 1, "routing": 0, "tunnelling": 1, "security": 0, "secured": "absent"}
    assert ref_filter(g1, {"name": "match", "tunnelling": True, "tunnelling_tcp": False, "routing": False, "secure_tunnelling": False, "secure_routing": False})
    assert not ref_filter(g1, {"name": None, "tunnelling": False, "tunnelling_tcp": True, "routing": True, "secure_tunnelling": True, "secure_routing": True})
    # literal frame: header, HPAI, 54-octet device DIB, families
    fr = gateway_frames(g, 0)[0]
    assert fr[:6] == bytes((0x06, 0x10, 0x02, 0x0C)) + len(fr).to_bytes(2, "big")
    assert fr[6:14] == bytes((8, 1, 10, 0, 0, 1, 0x0E, 0x57))
    assert fr[14] == 54 and fr[15] == 1 and fr[18:20] == b"\x10\x01"
    assert fr[68:80] == bytes((12, 2, 2, 2, 3, 1, 4, 2, 5, 1, 9, 1)) and fr[80:84] == bytes((4, 6, 4, 1))
    assert len(gateway_frames(g1, 1)) == 1 and gateway_frames(g1, 1)[0][2:4] == b"\x02\x02"
    assert len(all_gateways()) == 120 and len(all_gateway_variants()) == 180 and len(all_filters()) == 96


# --------------------------------------------------------------------------- enumeration
def all_gateways() -> list[dict]:
    return [
        {"core": c, "routing": r, "tunnelling": t, "security": s, "secured": sec}
        for c, r, t, s, sec in itertools.product((1, 2), (0, 1), (0, 1, 2), (0, 1), SECURED)
    ]


def all_gateway_variants() -> list[dict]:
    out = []
    for g in all_gateways():
        if g["core"] >= 2:
            out.append({**g, "plain_first": False})
            out.append({**g, "plain_first": True})
        else:
            out.append({**g, "plain_first": False})
    return out


def all_filters() -> list[dict]:
    out = []
    for name in (None, "match", "mismatch"):
        for bits in itertools.product((False, True), repeat=5):
            out.append({"name": name, **dict(zip(METHODS, bits))})
    return out


def make_filter(f) -> GS.GatewayScanFilter:
    name = {None: None, "match": NAME, "mismatch": "other"}[f.get("name")]
    return GS.GatewayScanFilter(name=name, **{m: bool(f[m]) for m in METHODS})


# --------------------------------------------------------------------------- scan filter predicate (sync)
def check_filter_pair(ctx, g, f) -> None:
    inp = {"filter_case": {"gateway": g, "filter": f}}
    try:
        raw = gateway_frames({**g, "core": max(g["core"], 1), "plain_first": False}, 0)
        # the extended frame is the one carrying all DIBs (for a core-1 device without the
        # secured DIB only a plain response exists; it carries the same remaining DIBs)
        frame, _ = KNXIPFrame.from_knx(raw[0])
        desc = GS.GatewayDescriptor(ip_addr=gw_ip(0), port=3671)
        desc.parse_dibs(frame.body.dibs)
        got = make_filter(f).match(desc)
    except Exception as e:  # noqa: BLE001
        ctx.fail(f"C46:filter-exc:{exc_site(e)}", inp, repr(e))
        return
    sup, sec = ref_supported(g), ref_secured(g)
    facts = {
        "supports_tunnelling": (bool(desc.supports_tunnelling), sup["tunnelling"]),
        "supports_tunnelling_tcp": (bool(desc.supports_tunnelling_tcp), sup["tunnelling_tcp"]),
        "supports_routing": (bool(desc.supports_routing), sup["routing"]),
        "tunnelling_requires_secure": (bool(desc.tunnelling_requires_secure), sec["T"]),
        "routing_requires_secure": (bool(desc.routing_requires_secure), sec["R"]),
        "core_version": (desc.core_version, g["core"]),
        "individual_address": (getattr(desc.individual_address, "raw", None), gw_ia(0)),
        "name": (desc.name, NAME),
    }
    for attr, (have, want) in facts.items():
        if have != want:
            ctx.fail(f"C46:descriptor:{attr}", inp, f"descriptor.{attr} = {have!r}, flags say {want!r}")
    exp = ref_filter(g, f)
    if not isinstance(got, bool) or got != exp:
        # root cause: the single method whose own filter disagrees
        key = "combination"
        for m in METHODS:
            if not f[m]:
                continue
            single = {"name": f.get("name"), **{x: x == m for x in METHODS}}
            try:
                if make_filter(single).match(desc) != ref_filter(g, single):
                    key = m
                    break
            except Exception:  # noqa: BLE001
                pass
        side = "false-negative" if exp else "false-positive"
        ctx.fail(f"C46:scan-filter:{side}:{key}", inp, f"GatewayScanFilter.match = {got!r}, reference {exp} (supported {sup}, secured {sec})")


# --------------------------------------------------------------------------- scan harness
_CUR: dict = {}


def _current_gateway_ip() -> str | None:
    """ip of the gateway _start_automatic is processing (from the awaiting frame)."""
    f = sys._getframe(1)
    while f is not None:
        if f.f_code.co_name == "_start_automatic":
            gw = f.f_locals.get("gateway")
            return getattr(gw, "ip_addr", None)
        f = f.f_back
    return None


class _StubInterface:
    kind = "?"

    def __init__(self, xknx, **kw) -> None:
        self.kw = kw

    async def connect(self) -> None:
        ip = self.kw.get("gateway_ip") or _current_gateway_ip()
        _CUR["rec"].append((self.kind, ip))
        if ip in _CUR["fail_ips"]:
            raise CommunicationError(f"stub: connect to {ip} fails")

    async def disconnect(self) -> None:
        return None

    async def send_cemi(self, cemi) -> None:
        return None


def _stub(kind: str):
    return type(f"Stub_{kind}", (_StubInterface,), {"kind": kind})


class _StubTransport:
    local_addr = ("127.0.0.1", 0)


async def _fake_scan(self, queue=None) -> None:
    """Replaces the network part only: deliver the case's response frames to the real callback."""
    try:
        for k, frame in _CUR["frames"]:
            self._response_rec_callback(frame, HPAI(gw_ip(k), 3671), _StubTransport(), interface="stub0", queue=queue)
        _CUR["found"] = sorted(hp.ip_addr for hp in self.found_gateways)
    finally:
        if queue is not None:
            queue.put_nowait(None)


_PATCHES = (
    (KI, "UDPTunnel", _stub("udp")),
    (KI, "TCPTunnel", _stub("tcp")),
    (KI, "SecureTunnel", _stub("secure_tcp")),
    (KI, "Routing", _stub("routing")),
    (KI, "SecureRouting", _stub("secure_routing")),
    (GS.GatewayScanner, "_scan", _fake_scan),
)


class _Patched:
    def __enter__(self):
        self.saved = [(o, n, o.__dict__[n] if isinstance(o, type) else getattr(o, n)) for o, n, _ in _PATCHES]
        for o, n, v in _PATCHES:
            setattr(o, n, v)
        self.loop = asyncio.new_event_loop()
        return self.loop

    def __exit__(self, *exc):
        for o, n, v in self.saved:
            setattr(o, n, v)
        try:
            self.loop.run_until_complete(self.loop.shutdown_asyncgens())
        finally:
            self.loop.close()
        return False


def _keyring(hosts: list[int]) -> Keyring:
    kr = Keyring()
    for j in hosts:
        i = XMLInterface()
        i.type = InterfaceType.TUNNELING
        i.individual_address = IndividualAddress(slot_ia(j))
        i.host = IndividualAddress(gw_ia(j))
        i.user_id = 2 + (j % 100)
        i.password = "x"
        i.decrypted_password = "pw"
        i.authentication = "x"
        i.decrypted_authentication = "auth"
        i.group_addresses = {}
        kr.interfaces.append(i)
    return kr


def _config(secure: str, f) -> tuple[ConnectionConfig, set[int] | None]:
    """ConnectionConfig for a secure-config label; second value = gateway indices allowed by the
    keyring host filter (None = no host filter)."""
    ia = None
    sc = None
    hosts: set[int] | None = None
    if secure == "user":
        sc = SecureConfig(user_id=2, user_password="pw", device_authentication_password="auth")
    elif secure.startswith("keyring:"):
        j = int(secure.split(":")[1])
        sc = SecureConfig(keyring=_keyring([j]))
        hosts = {j}
    elif secure == "keyring-empty":
        sc = SecureConfig(keyring=_keyring([]))
    elif secure.startswith("keyring-ia:"):
        j = int(secure.split(":")[1])
        sc = SecureConfig(keyring=_keyring([j, 8]))
        ia = IndividualAddress(slot_ia(j))
        hosts = {j}
    elif secure == "keyring-ia-missing":
        sc = SecureConfig(keyring=_keyring([0]))
        ia = IndividualAddress(0x10FE)
        hosts = set()
    elif secure != "none":
        raise HarnessError(f"unknown secure config {secure}")
    cfg = ConnectionConfig(connection_type=ConnectionType.AUTOMATIC, local_ip="127.0.0.1", individual_address=ia, scan_filter=make_filter(f), secure_config=sc)
    return cfg, hosts


async def _start(cfg: ConnectionConfig):
    xknx = XKNX()
    itf = KI.KNXIPInterface(xknx, cfg)
    try:
        await itf.start()
    except XKNXException as e:
        return ("xknx-exc", type(e).__name__, itf)
    except Exception as e:  # noqa: BLE001
        return ("exc", e, itf)
    return ("ok", None, itf)


def check_scan(ctx, loop, case) -> bool:
    """One scan; returns whether it was non-trivial. Must run inside _Patched."""
    gws, f, secure = case["gateways"], case["filter"], case["secure"]
    inp = {"gateways": gws, "filter": f, "secure": secure}
    frames = []
    # responses of different gateways interleave in index order, each gateway's own order kept
    per = [[KNXIPFrame.from_knx(r)[0] for r in gateway_frames(g, k)] for k, g in enumerate(gws)]
    for rnd in range(2):
        for k, lst in enumerate(per):
            if rnd < len(lst):
                frames.append((k, lst[rnd]))
    cfg, hosts = _config(secure, f)
    _CUR.clear()
    _CUR.update(rec=[], frames=frames, found=None, fail_ips={gw_ip(k) for k, g in enumerate(gws) if g.get("fail")})
    status, info, itf = loop.run_until_complete(_start(cfg))
    left = [t for t in asyncio.all_tasks(loop) if not t.done()]
    for t in left:
        t.cancel()
    if left:
        loop.run_until_complete(asyncio.gather(*left, return_exceptions=True))
    rec, found = list(_CUR["rec"]), _CUR["found"]
    by_ip = {gw_ip(k): g for k, g in enumerate(gws)}
    if status == "exc":
        ctx.fail(f"C46:start-exc:{exc_site(info)}", inp, f"start() raised {info!r}")
    # ---- oracle 1: no unsecured connection to a gateway announcing the service as secured
    for kind, ip in rec:
        g = by_ip.get(ip)
        if g is None:
            ctx.fail("C46:connect-unknown-gateway", inp, f"{kind} connect attributed to {ip!r}")
            continue
        sec = ref_secured(g)
        if kind in ("udp", "tcp") and sec["T"]:
            ctx.fail(f"C46:downgrade:tunnelling:{kind}", inp, f"unsecured {kind} tunnel opened to {ip}, which announces tunnelling as secured; attempts {rec}")
        if kind == "routing" and sec["R"]:
            ctx.fail("C46:downgrade:routing", inp, f"unsecured routing opened for {ip}, which announces routing as secured; attempts {rec}")
    # ---- oracle 2: the scanner's found set is the reference predicate
    exp_found = sorted(gw_ip(k) for k, g in enumerate(gws) if ref_filter(g, f))
    if found is not None and found != exp_found:
        ctx.fail("C46:found-set-neq", inp, f"scanner kept {found}, reference filter keeps {exp_found}")
    if found is None and secure != "keyring-ia-missing":
        ctx.fail("C46:scan-not-run", inp, f"start() ended with {status}/{info} without scanning")
    # ---- bookkeeping
    if status == "ok" and not rec:
        ctx.notes["started_ok_without_any_connect"] = ctx.notes.get("started_ok_without_any_connect", 0) + 1
    for kind, _ip in rec:
        ctx.notes[f"connects_{kind}"] = ctx.notes.get(f"connects_{kind}", 0) + 1
    considered = [k for k, g in enumerate(gws) if ref_filter(g, f) and (hosts is None or k in hosts)]
    return any(any(ref_secured(gws[k]).values()) for k in considered) and secure != "keyring-ia-missing"


# --------------------------------------------------------------------------- jobs
def _filter_job(ctx) -> None:
    gs, fs = all_gateways(), all_filters()
    nt = 0
    for g in gs:
        for f in fs:
            check_filter_pair(ctx, g, f)
            bits = [f[m] for m in METHODS]
            nt += g["secured"] in ("T", "R", "TR") or (any(bits) and not all(bits))
    ctx.bulk(len(gs) * len(fs), nt, "filter-pair")
    ctx.sample({"filter_case": {"gateway": gs[59], "filter": fs[37]}, "reference": ref_filter(gs[59], fs[37])})


def _single_job(ctx, lo: int, hi: int) -> None:
    variants, fs = all_gateway_variants(), all_filters()
    n = nt = skipped = 0
    with _Patched() as loop:
        for g in variants[lo:hi]:
            for f in fs:
                for secure in SECURE_CFGS:
                    for fail in (False, True):
                        case = {"gateways": [{**g, "fail": fail}], "filter": f, "secure": secure}
                        nontrivial = check_scan(ctx, loop, case)
                        nt += nontrivial
                        n += 1
                        attempts = list(_CUR["rec"])
                        if nontrivial and attempts and (n % 251 == 0 or len(ctx.samples) < 3):
                            ctx.sample({**case, "attempts": attempts, "found": _CUR["found"]})
                        if not attempts:
                            # the connect outcome is only consulted inside connect(): without an
                            # attempt the failing variant is the same execution, so it is not run
                            skipped += 1
                            break
    ctx.notes["single_scans_failing_variant_not_run_no_connect_attempt"] = skipped
    ctx.bulk(n, nt, "single-gateway-scan")


_GW = st.fixed_dictionaries(
    {
        "core": st.sampled_from((1, 2, 2)),
        "routing": st.sampled_from((0, 1)),
        "tunnelling": st.sampled_from((0, 1, 2, 2)),
        "security": st.sampled_from((0, 1)),
        "secured": st.sampled_from(SECURED + ("T", "R", "TR")),
        "plain_first": st.booleans(),
        "fail": st.booleans(),
    }
)
_FILTER = st.fixed_dictionaries({"name": st.sampled_from((None, None, "match", "mismatch")), **{m: st.booleans() for m in METHODS}})
_SECURE = st.sampled_from(("none", "user", "keyring:0", "keyring:1", "keyring:2", "keyring:9", "keyring-empty", "keyring-ia:0", "keyring-ia:1", "keyring-ia-missing"))
MULTI = st.fixed_dictionaries({"gateways": st.lists(_GW, min_size=2, max_size=3), "filter": _FILTER, "secure": _SECURE})


def _multi_job(ctx, n: int) -> None:
    with _Patched() as loop:

        def oracle(c, case) -> None:
            case = {**case, "gateways": [{**g, "plain_first": bool(g["plain_first"]) and g["core"] >= 2} for g in case["gateways"]]}
            nontrivial = check_scan(c, loop, case)
            labels = [f"gateways:{len(case['gateways'])}", f"secure:{case['secure'].split(':')[0]}"]
            if any(g["fail"] for g in case["gateways"]):
                labels.append("some-connect-fails")
            if len(_CUR["rec"]) > 1:
                labels.append("several-attempts")
            c.case(("multi", repr(case)), nontrivial, labels, sample={**case, "attempts": list(_CUR["rec"])} if nontrivial and len(_CUR["rec"]) > 1 else None)

        hyp_search(ctx, MULTI, oracle, n, shrink_cap_s=10.0 if ctx.quick else 60.0)


def _job(ctx, kind: str, *args) -> None:
    {"filter": _filter_job, "single": _single_job, "multi": _multi_job}[kind](ctx, *args)


def run(ctx) -> None:
    nvar = len(all_gateway_variants())
    step = 6
    jobs: list[tuple] = [("filter",)]
    jobs += [("single", lo, min(lo + step, nvar)) for lo in range(0, nvar, step)]
    shards = 16
    jobs += [("multi", ctx.n(9600, 160000) // shards)] * shards
    gc.collect()
    gc.freeze()  # keep the forked workers' collectors off the shared heap
    try:
        parallel(ctx, _job, jobs)
    finally:
        gc.unfreeze()
    ctx.exhaustive = True
    ctx.notes["exhaustive_part"] = "120 flag sets x 96 filters (filter predicate); 180 gateway variants x 96 filters x 7 secure configs x 2 connect outcomes (single-gateway scans); multi-gateway scans are sampled"


def replay(ctx, case) -> None:
    if "filter_case" in case:
        check_filter_pair(ctx, case["filter_case"]["gateway"], case["filter_case"]["filter"])
        ctx.case(("replay-filter", repr(case)), True, "replay:filter-pair")
    elif "gateways" in case:
        with _Patched() as loop:
            nontrivial = check_scan(ctx, loop, {"gateways": case["gateways"], "filter": case["filter"], "secure": case["secure"]})
            ctx.case(("replay-scan", repr(case)), nontrivial, "replay:scan")
