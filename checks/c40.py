"""C40 - cover position estimates stay within bounds and never fail.

Generated histories of movement commands, stop commands, position reports and
queries drive a real `TravelCalculator` (directly, and below a real `Cover` that
receives telegrams) while `time.time`, as read inside xknx.devices.travelcalculator,
is a generated non-decreasing clock. Every step is mirrored by an exact
`fractions.Fraction` reference model; the invariant of the property statement is
checked before and after every command and at every query.
"""

from __future__ import annotations

import asyncio
from fractions import Fraction
import math
import types

from hypothesis import strategies as st

from vk.core import exc_site
from vk.engine import hyp_search, parallel
from vk.vloop import run_case

PROPERTY = "C40"
LEVEL = "exploration"
TECHNIQUE = "model-based stateful histories (Hypothesis, data-driven) against an exact rational reference model, patched clock"
RULE = (
    "histories of up to 30 ops over {start_travel(x), up, down, stop, update_position(x), set_position(x), query, clock advance} "
    "on a TravelCalculator, and of Cover API calls / incoming telegrams (position reports, up/down, stop, step, target position) on a Cover; "
    "clock advances from {0, 1e-7, k/8 of the remaining travel time, k/8 of the up / down time for the distance, exactly the end instant +-1 ulp, "
    "one position step, beyond}; travel times 0.5..300 s asymmetric; clock base 0, 1000 or 1.7e9; optional clock tick between the readings of one query; "
    "Cover API calls are followed by their queued telegrams processed as outgoing; a 'tick' op lets 1 s of virtual time pass so the Cover's periodic "
    "callback / auto-stop run; a position report that arrives while the cover is certainly at rest (never moved, stopped, or travel time elapsed) "
    "must make the estimate equal the reported position with is_traveling False; "
    "non-trivial = at least one query strictly inside a running travel (0 < elapsed < required) or a report at rest after a travel that completed by time; distinct by (times, base, ops)"
)
LEVEL_TEXT = (
    "Every generated history is executed on the real calculator in lock-step with an exact rational model; after every command "
    "and at every query the estimate must be unknown or an int between the last known position and the target, never move away from "
    "the target while the clock advances, equal the target once the travel time for the distance has elapsed and differ from it while "
    "more than one position step of time is missing; no query or command may raise."
)
LEVEL_NOTE = (
    "The clock is the module attribute xknx.devices.travelcalculator.time replaced by a generated float clock; comparisons of elapsed "
    "time allow 2^-44 relative slack for the float arithmetic of the code under test. Below a Cover the model follows the calculator "
    "calls the Cover actually makes (the Cover is a realistic driver, not modelled itself); timers of the Cover (auto-stop, periodic "
    "callback) only fire in the explicit 'tick' op: the Cover histories run on the virtual-time loop and otherwise only yield with sleep(0). While a stand-alone query runs the clock may "
    "move on between the readings taken inside it (tick 0, 1e-7, 1e-3 or 0.3 s); commands see one reading."
)
ASSUMPTIONS = [
    "position range 0..100 (position_closed = 100), positions in commands and reports are ints 0..100",
    "a command issued while the position is unknown may either leave it unknown or assume the commanded position",
    "the stop position and the start of a new travel are whatever in-bounds estimate the calculator reported at that clock reading (rounding mode not prescribed)",
    "'reaches it exactly when the travel time has elapsed' is checked for travels started by a movement command, re-based by position reports that "
    "arrive strictly during the travel and short of the target; reports while stopped, after the travel time expired, equal to the target or past "
    "it only have to keep the estimate between the report and the target, monotone",
    "integer estimates: elapsed >= required => estimate == target; elapsed < required - one position step of time => estimate != target",
    "Cover: a position report received while the cover is at rest (no travel started, stopped, or the travel time of the last command has elapsed) is both the last known "
    "position and the target: the estimate equals the reported position and is_traveling() is False; near the end instant (within one position step) nothing is demanded",
]

POS_MAX = 100


class Clock:
    """Generated clock standing in for the `time` module inside travelcalculator."""

    def __init__(self, base: float, tick: float = 0.0) -> None:
        self.now = float(base)  # the value the next reading returns
        self.tick = float(tick)  # while armed every reading moves the clock on by this much
        self.armed = False  # armed only around stand-alone queries, so commands see one reading
        self.reads = 0

    def time(self) -> float:
        self.reads += 1
        v = self.now
        if self.tick and self.armed:
            self.now = max(v + self.tick, math.nextafter(v, math.inf))
        return v

    def advance_to(self, t: float) -> None:
        if t > self.now:
            self.now = t


class Stop(Exception):
    """Abort the current history after a recorded violation (avoid cascades)."""


class Tracker:
    """Real TravelCalculator + rational reference model in lock-step.

    Also usable as `Cover.travelcalculator` (attribute access is delegated).
    """

    def __init__(self, ctx, calc, clock: Clock, tt_down: float, tt_up: float, inp) -> None:
        self._ctx = ctx
        self._calc = calc
        self._clock = clock
        self._tt = {1: Fraction(tt_down), -1: Fraction(tt_up)}
        self._inp = inp
        # model
        self.lk: int | None = None
        self.tgt: int | None = None
        self.ts_lo = self.ts_hi = Fraction(clock.now)  # base instant of the current segment
        self.strict = False  # a travel whose arrival time the statement fixes
        self.required = Fraction(0)
        self.seg_last: int | None = None
        # accounting
        self.mid_queries = 0
        self.rest_reports = 0
        self.labels: set[str] = set()
        self.trace: list = []

    # ---- delegation for the Cover -------------------------------------------
    def __getattr__(self, name):
        return getattr(self._calc, name)

    # ---- helpers -----------------------------------------------------------
    dead = False  # a violation was recorded: nothing further is checked in this history

    def _fail(self, bucket: str, detail: str) -> None:
        self._ctx.fail(bucket, self._inp, detail + f" | trace tail {self.trace[-6:]}")
        self.dead = True
        raise Stop

    def at_rest(self) -> bool | None:
        """Is the cover certainly at rest (True), certainly travelling (False) or near the end instant / ambiguous (None)."""
        if self.lk is None:
            return True
        tgt = self.lk if self.tgt is None else self.tgt
        if not self.strict:
            return True if tgt == self.lk else None
        if tgt == self.lk:
            return True
        now = Fraction(self._clock.now)
        eps = self._eps(now)
        if now - self.ts_hi >= self.required + eps:
            return True
        if now - self.ts_lo < self.required - self.required / abs(tgt - self.lk) - eps:
            return False
        return None

    def _call(self, what: str, fn, *a):
        if self.dead:
            raise Stop
        try:
            return fn(*a)
        except Stop:
            raise
        except Exception as e:  # noqa: BLE001
            self._fail(f"C40:exc:{exc_site(e)}", f"{what}{a} raised {e!r} at clock {self._clock.now!r}")

    def _eps(self, now: Fraction) -> Fraction:
        return (abs(now) + self.required + 1) / 2**44

    def _required_for(self, frm: int, to: int) -> Fraction:
        d = to - frm
        return self._tt[1 if d > 0 else -1] * abs(d) / POS_MAX

    def _begin_segment(self) -> None:
        self.seg_last = self.lk

    # ---- the invariant -----------------------------------------------------
    def expect(self, est, where: str, t_lo: Fraction | None = None) -> None:
        now_hi = Fraction(self._clock.now)
        now_lo = now_hi if t_lo is None else t_lo
        self.trace.append((where, float(now_lo), est))
        if self.lk is None:
            if est is not None:
                self._fail("C40:unknown:estimate-without-any-position", f"{where}: estimate {est!r} although no position was ever commanded or reported")
            return
        if est is None:
            self._fail("C40:known:estimate-unknown", f"{where}: estimate None although last known position is {self.lk}")
        if type(est) is not int:
            self._fail(f"C40:type:{type(est).__name__}", f"{where}: estimate {est!r} is not an int")
        tgt = self.lk if self.tgt is None else self.tgt
        lo, hi = min(self.lk, tgt), max(self.lk, tgt)
        if not lo <= est <= hi:
            side = "past-target" if (est > hi) == (tgt >= self.lk) else "behind-last-known"
            if side == "past-target":
                # root causes differ: readings straddling the end instant (shortcut and progress
                # disagree by a rounding / a later reading) vs. an estimate that keeps running
                at_end = now_lo - self.ts_hi <= self.required + self._eps(now_hi)
                side += ":first-reading-not-after-end-instant" if at_end else ":after-end-instant"
            self._fail(f"C40:bounds:{side}", f"{where}: estimate {est} outside [{lo}, {hi}] (last known {self.lk}, target {tgt}, elapsed {float(now_lo - self.ts_hi)!r}..{float(now_hi - self.ts_lo)!r} of {float(self.required)!r})")
        if self.seg_last is not None and abs(tgt - est) > abs(tgt - self.seg_last):
            self._fail("C40:monotone:moved-away-from-target", f"{where}: estimate {est} after {self.seg_last} with target {tgt}")
        self.seg_last = est
        if self.strict and tgt != self.lk:
            e_min = now_lo - self.ts_hi  # elapsed time is at least / at most
            e_max = now_hi - self.ts_lo
            eps = self._eps(now_hi)
            step = self.required / abs(tgt - self.lk)
            if e_min >= self.required + eps and est != tgt:
                self._fail("C40:reach:late", f"{where}: estimate {est} != target {tgt} although {float(e_min)!r} s >= travel time {float(self.required)!r} s elapsed (from {self.lk})")
            if e_max < self.required - step - eps and est == tgt:
                self._fail("C40:reach:early", f"{where}: estimate equals target {tgt} after {float(e_max)!r} s of {float(self.required)!r} s (from {self.lk})")
            if 0 < e_min and e_max < self.required:
                self.mid_queries += 1

    def query(self, where: str = "query", ticking: bool = False):
        """One estimate. ticking: the clock moves on between the readings taken inside the query."""
        t_lo = Fraction(self._clock.now)
        self._clock.armed = ticking
        try:
            est = self._call("current_position", self._calc.current_position)
        finally:
            self._clock.armed = False
        self.expect(est, where, t_lo)
        return est

    def query_all(self) -> None:
        self.query("query", ticking=True)
        est = self.query("query")
        trav = self._call("is_traveling", self._calc.is_traveling)
        reached = self._call("position_reached", self._calc.position_reached)
        for name in ("is_open", "is_closed", "is_opening", "is_closing"):
            self._call(name, getattr(self._calc, name))
        if self.tgt is not None and self.lk is not None:
            if reached != (est == self.tgt) or trav != (est != self.tgt):
                self._fail("C40:flags:inconsistent-with-estimate", f"estimate {est}, target {self.tgt}, is_traveling {trav}, position_reached {reached}")

    # ---- commands (also called by the Cover) --------------------------------
    def current_position(self):
        return self.query("cover-query")

    def stop(self) -> None:
        q0 = self.query("pre-stop")
        self._call("stop", self._calc.stop)
        if self.lk is not None:
            self.lk = self.tgt = q0
            self.ts_lo = self.ts_hi = Fraction(self._clock.now)
            self.strict = False
            self.required = Fraction(0)
            self._begin_segment()
        self.labels.add("stop")
        self.query("post-stop")

    def start_travel(self, x: int) -> None:
        q0 = self.query("pre-start")
        self._call("start_travel", self._calc.start_travel, x)
        self._after_start(q0, x)

    def start_travel_up(self) -> None:
        q0 = self.query("pre-start")
        self._call("start_travel_up", self._calc.start_travel_up)
        self._after_start(q0, 0)

    def start_travel_down(self) -> None:
        q0 = self.query("pre-start")
        self._call("start_travel_down", self._calc.start_travel_down)
        self._after_start(q0, POS_MAX)

    def _after_start(self, q0, x: int) -> None:
        self.ts_lo = self.ts_hi = Fraction(self._clock.now)
        if self.lk is None:
            est = self._call("current_position", self._calc.current_position)
            if est is None:
                self.trace.append(("post-start-unknown", self._clock.now, None))
                return
            self.lk = self.tgt = x  # assumed to be there
            self.strict = False
            self.required = Fraction(0)
            self._begin_segment()
            self.expect(est, "post-start-from-unknown")
            return
        self.lk, self.tgt = q0, x
        self.strict = x != q0
        self.required = self._required_for(q0, x)
        self._begin_segment()
        self.labels.add("travel-down" if x > q0 else ("travel-up" if x < q0 else "travel-nowhere"))
        self.query("post-start")

    def set_position(self, x: int) -> None:
        self.query("pre-set")
        self._call("set_position", self._calc.set_position, x)
        self.lk = self.tgt = x
        self.ts_lo = self.ts_hi = Fraction(self._clock.now)
        self.strict = False
        self.required = Fraction(0)
        self._begin_segment()
        self.query("post-set")

    def update_position(self, x: int) -> None:
        self.query("pre-report")
        now = Fraction(self._clock.now)
        self._call("update_position", self._calc.update_position, x)
        if self.strict and self.tgt is not None and self.lk is not None:
            going = 1 if self.tgt > self.lk else -1
            expired = now - self.ts_lo >= self.required - self._eps(now)
            past = (x - self.tgt) * going >= 0
            if expired or past:
                self.strict = False
                self.labels.add("report-ends-travel")
            else:
                self.labels.add("report-during-travel")
        else:
            self.strict = False
            self.labels.add("report-while-idle")
        self.lk = x
        self.ts_lo = self.ts_hi = now
        self.required = self._required_for(x, self.tgt) if self.tgt is not None else Fraction(0)
        self._begin_segment()
        self.query("post-report")

    # ---- clock -------------------------------------------------------------
    def advance(self, kind: str, k: int) -> None:
        c = self._clock
        now = Fraction(c.now)
        tgt = self.lk if self.tgt is None else self.tgt
        dist = abs(tgt - self.lk) if self.lk is not None and tgt != self.lk else POS_MAX
        req = self.required if self.required > 0 else self._tt[1]
        if kind == "zero":
            self.labels.add("equal-clock")
            return
        if kind == "tiny":
            new = float(now + Fraction(1, 10**7))
        elif kind == "frac":
            new = float(now + req * k / 8)
        elif kind == "fu":
            new = float(now + self._tt[-1] * dist / POS_MAX * k / 8)
        elif kind == "fd":
            new = float(now + self._tt[1] * dist / POS_MAX * k / 8)
        elif kind == "end":
            # the float the code under test computes for the end instant, +- k ulps
            new = float(self.ts_lo) + float(self.required)
            for _ in range(abs(k)):
                new = math.nextafter(new, math.inf if k > 0 else -math.inf)
            self.labels.add("end-instant")
        elif kind == "step":
            new = float(now + req / dist * k)
        else:  # beyond
            new = float(now + 2 * max(self._tt.values()) + k)
        c.advance_to(new)


# ---------------------------------------------------------------------------
# strategies (histories as data)

_pos = st.one_of(st.integers(0, POS_MAX), st.sampled_from([0, 1, 50, 99, 100]))
_adv = st.one_of(
    st.just(("adv", "zero", 0)),
    st.just(("adv", "tiny", 0)),
    st.tuples(st.just("adv"), st.just("frac"), st.integers(1, 12)),
    st.tuples(st.just("adv"), st.just("frac"), st.integers(1, 7)),
    st.tuples(st.just("adv"), st.sampled_from(["fu", "fd"]), st.integers(1, 12)),
    st.tuples(st.just("adv"), st.just("end"), st.integers(-2, 2)),
    st.tuples(st.just("adv"), st.just("step"), st.integers(1, 3)),
    st.tuples(st.just("adv"), st.just("beyond"), st.integers(0, 5)),
)
_calc_op = st.one_of(
    st.tuples(st.just("start"), _pos),
    st.just(("up",)),
    st.just(("down",)),
    st.just(("stop",)),
    st.tuples(st.just("update"), _pos),
    st.tuples(st.just("set"), _pos),
    st.just(("q",)),
    _adv,
    _adv,
    _adv,
)
_tt = st.one_of(
    st.sampled_from([0.5, 1.0, 2.5, 10.0, 25.0, 60.0, 120.5, 300.0]),
    st.floats(0.5, 300.0, allow_nan=False, allow_infinity=False),
)
_base = st.sampled_from([0.0, 1000.0, 1.7e9, 1726992000.123456])
_tick = st.sampled_from([0.0, 0.0, 0.0, 1e-7, 1e-3, 0.3])
_prefix = st.one_of(st.just([]), st.tuples(st.just("set"), _pos).map(lambda o: [o]), st.tuples(st.just("set"), _pos).map(lambda o: [o]))


@st.composite
def calc_histories(draw):
    return {
        "kind": "calc",
        "tt_down": draw(_tt),
        "tt_up": draw(_tt),
        "base": draw(_base),
        "tick": draw(_tick),
        "ops": [list(o) for o in draw(_prefix) + draw(st.lists(_calc_op, min_size=1, max_size=30))],
    }


_raw = st.one_of(st.integers(0, 255), st.sampled_from([0, 1, 127, 128, 254, 255]))
_cover_op = st.one_of(
    st.just(("c_up",)),
    st.just(("c_down",)),
    st.just(("c_stop",)),
    st.tuples(st.just("c_setpos"), _pos),
    st.tuples(st.just("t_report"), _raw, st.booleans()),
    st.tuples(st.just("t_report"), _raw, st.booleans()),
    st.tuples(st.just("t_updown"), st.integers(0, 1)),
    st.just(("t_stop",)),
    st.tuples(st.just("t_step"), st.integers(0, 1)),
    st.tuples(st.just("t_target"), _raw),
    st.just(("q",)),
    st.just(("c_tick",)),
    _adv,
    _adv,
    _adv,
    _adv,
)
_move = st.one_of(
    st.just(("c_down",)),
    st.just(("c_up",)),
    st.tuples(st.just("t_updown"), st.integers(0, 1)),
    st.tuples(st.just("c_setpos"), _pos),
    st.tuples(st.just("t_target"), _raw),
)
# position known -> movement command -> its travel completes by elapsed time (optionally the cover's periodic
# task runs) -> position report while the cover is at rest
_rest_report = st.tuples(
    st.tuples(st.just("t_report"), _raw, st.booleans()),
    _move,
    st.tuples(st.just("adv"), st.just("beyond"), st.integers(0, 5)),
    st.sampled_from([("c_tick",), ("q",)]),
    st.tuples(st.just("t_report"), _raw, st.booleans()),
).map(list)
_cover_prefix = st.one_of(
    st.just([]),
    _rest_report,
    _rest_report,
    st.tuples(st.just("t_report"), _raw, st.booleans()).map(lambda o: [o]),
    st.tuples(st.just("t_report"), _raw, st.booleans()).map(lambda o: [o, ("c_down",)]),
    st.tuples(st.just("t_report"), _raw, st.booleans()).map(lambda o: [o, ("t_updown", 0)]),
)


@st.composite
def cover_histories(draw):
    return {
        "kind": "cover",
        "tt_down": draw(_tt),
        "tt_up": draw(_tt),
        "base": draw(_base),
        "tick": draw(_tick),
        "cfg": {
            "position": draw(st.booleans()),
            "stop": draw(st.booleans()),
            "step": draw(st.booleans()),
            "invert_position": draw(st.booleans()),
            "invert_updown": draw(st.booleans()),
        },
        "ops": [list(o) for o in draw(_cover_prefix) + draw(st.lists(_cover_op, min_size=1, max_size=30))],
    }


# ---------------------------------------------------------------------------
# drivers


class _Patched:
    """Replace the `time` name inside xknx.devices.travelcalculator by the clock."""

    def __init__(self, clock: Clock) -> None:
        self.clock = clock

    def __enter__(self):
        import xknx.devices.travelcalculator as tcmod

        self.mod = tcmod
        self.saved = tcmod.time
        tcmod.time = types.SimpleNamespace(time=self.clock.time)
        return self

    def __exit__(self, *exc):
        self.mod.time = self.saved
        return False


def run_calc(ctx, h) -> Tracker:
    from xknx.devices.travelcalculator import TravelCalculator

    clock = Clock(h["base"], h.get("tick", 0.0))
    with _Patched(clock):
        calc = TravelCalculator(h["tt_down"], h["tt_up"])
        tr = Tracker(ctx, calc, clock, h["tt_down"], h["tt_up"], h)
        try:
            tr.query_all()
            for op in h["ops"]:
                name = op[0]
                if name == "start":
                    tr.start_travel(int(op[1]))
                elif name == "up":
                    tr.start_travel_up()
                elif name == "down":
                    tr.start_travel_down()
                elif name == "stop":
                    tr.stop()
                elif name == "update":
                    tr.update_position(int(op[1]))
                elif name == "set":
                    tr.set_position(int(op[1]))
                elif name == "adv":
                    tr.advance(op[1], int(op[2]))
                tr.query_all()
        except Stop:
            pass
    return tr


GA = {"long": "1/0/1", "short": "1/0/2", "stop": "1/0/3", "pos": "1/0/4", "pos_state": "1/0/5"}


def run_cover(ctx, h) -> Tracker:
    from xknx import XKNX
    from xknx.devices import Cover
    from xknx.dpt import DPTArray, DPTBinary
    from xknx.telegram import GroupAddress, Telegram, TelegramDirection
    from xknx.telegram.apci import GroupValueResponse, GroupValueWrite

    clock = Clock(h["base"], h.get("tick", 0.0))
    cfg = h["cfg"]
    holder: dict = {}

    async def scenario():
        xknx = XKNX()
        cover = Cover(
            xknx,
            "c",
            group_address_long=GA["long"],
            group_address_short=GA["short"] if cfg["step"] else None,
            group_address_stop=GA["stop"] if cfg["stop"] else None,
            group_address_position=GA["pos"] if cfg["position"] else None,
            group_address_position_state=GA["pos_state"],
            travel_time_down=h["tt_down"],
            travel_time_up=h["tt_up"],
            invert_position=cfg["invert_position"],
            invert_updown=cfg["invert_updown"],
            sync_state=False,
        )
        xknx.devices.async_add(cover)
        tr = Tracker(ctx, cover.travelcalculator, clock, h["tt_down"], h["tt_up"], h)
        cover.travelcalculator = tr  # the Cover now drives the calculator through the tracker
        holder["tr"] = tr

        def incoming(ga: str, value, response: bool = False) -> None:
            payload = GroupValueResponse(value) if response else GroupValueWrite(value)
            t = Telegram(destination_address=GroupAddress(ga), payload=payload, direction=TelegramDirection.INCOMING)
            xknx.devices.process(t)

        async def guarded(what, coro_fn, *a):
            try:
                r = coro_fn(*a)
                if asyncio.iscoroutine(r):
                    await r
            except Stop:
                raise
            except Exception as e:  # noqa: BLE001
                ctx.fail(f"C40:exc:{exc_site(e)}", h, f"Cover {what}{a} raised {e!r} at clock {clock.now!r}")
                raise Stop from None

        def drain() -> None:
            """Feed the telegrams the Cover queued back as outgoing telegrams, as the telegram queue does."""
            n = 0
            while not xknx.telegrams.empty() and n < 20:
                t = xknx.telegrams.get_nowait()
                xknx.telegrams.task_done()
                if t is not None:
                    xknx.devices.process(t)
                n += 1

        async def api(what, fn, *a):
            await guarded(what, fn, *a)
            await guarded(what + " (outgoing telegram)", drain)

        async def report(raw: int, response: bool) -> None:
            rest = tr.at_rest()
            completed = rest is True and tr.strict
            payload = DPTArray(raw)
            await guarded("report", incoming, GA["pos_state"], payload, response)
            if rest is True and cover.position_current.last_payload is payload:
                tr.labels.add("report-at-rest-after-completed-travel" if completed else "report-at-rest")
                if completed:
                    tr.rest_reports += 1
                x = cover.position_current.value
                est = tr._call("Cover.current_position", cover.current_position)
                trav = tr._call("Cover.is_traveling", cover.is_traveling)
                if est != x:
                    tr._fail("C40:cover:report-at-rest:estimate-differs-from-report", f"position report {x} (raw {raw}) while the cover is at rest: estimate {est!r}")
                if trav:
                    tr._fail("C40:cover:report-at-rest:travelling", f"position report {x} (raw {raw}) while the cover is at rest: is_traveling() True, estimate {est!r}")

        def cover_query() -> None:
            if tr.dead:
                raise Stop
            tr.query_all()
            for name in ("current_position", "is_traveling", "position_reached", "is_open", "is_closed", "is_opening", "is_closing"):
                tr._call(f"Cover.{name}", getattr(cover, name))

        try:
            cover_query()
            for op in h["ops"]:
                name = op[0]
                if name == "c_up":
                    await api("set_up", cover.set_up)
                elif name == "c_down":
                    await api("set_down", cover.set_down)
                elif name == "c_stop":
                    await api("stop", cover.stop)
                elif name == "c_setpos":
                    await api("set_position", cover.set_position, int(op[1]))
                elif name == "c_tick":
                    # virtual time passes: the Cover's periodic callback (1 s) and a due auto-stop run
                    await asyncio.sleep(1.01)
                    await guarded("tasks (outgoing telegram)", drain)
                elif name == "t_report":
                    await report(int(op[1]), bool(op[2]))
                elif name == "t_updown":
                    await guarded("updown", incoming, GA["long"], DPTBinary(int(op[1])))
                elif name == "t_stop":
                    if cfg["stop"]:
                        await guarded("stop-telegram", incoming, GA["stop"], DPTBinary(1))
                elif name == "t_step":
                    if cfg["step"]:
                        await guarded("step-telegram", incoming, GA["short"], DPTBinary(int(op[1])))
                elif name == "t_target":
                    if cfg["position"]:
                        await guarded("target-telegram", incoming, GA["pos"], DPTArray(int(op[1])))
                elif name == "adv":
                    tr.advance(op[1], int(op[2]))
                await asyncio.sleep(0)  # let freshly started Cover tasks reach their first await
                cover_query()
        except Stop:
            pass
        finally:
            cover.async_remove_tasks()
            xknx.task_registry.stop()
            await asyncio.sleep(0)

    # virtual-time loop: the Cover's timers (1 s periodic callback, auto-stop) never fire while the
    # history is interpreted with sleep(0) steps - deterministic regardless of machine load
    with _Patched(clock):
        _res, vl = run_case(lambda _loop: scenario(), max_iters=200_000)
    tr = holder["tr"]
    for esc in vl.escaped:
        if not isinstance(esc.get("exception"), Stop) and not tr.dead:
            ctx.fail(f"C40:exc-in-cover-task:{exc_site(esc['exception']) if esc.get('exception') is not None else 'unknown'}", h, esc.get("repr", ""))
            break
    return tr


def oracle(ctx, h) -> None:
    tr = run_cover(ctx, h) if h["kind"] == "cover" else run_calc(ctx, h)
    cls = [h["kind"]] + sorted(tr.labels)
    if h["base"] > 1e9:
        cls.append("epoch-clock")
    if h.get("tick"):
        cls.append("clock-ticks-between-readings")
    nontrivial = tr.mid_queries > 0 or tr.rest_reports > 0
    if tr.mid_queries > 0:
        cls.append("mid-travel-query")
    sample = None
    if nontrivial and len(h["ops"]) >= 8:
        sample = {"kind": h["kind"], "tt": [h["tt_down"], h["tt_up"]], "ops": h["ops"][:12], "trace_tail": tr.trace[-4:]}
    ctx.case((h["kind"], h["tt_down"], h["tt_up"], h["base"], h.get("tick", 0.0), repr(h.get("cfg")), repr(h["ops"])), nontrivial=nontrivial, cls=cls, sample=sample)


def _shard(ctx, kind: str, n: int) -> None:
    hyp_search(ctx, calc_histories() if kind == "calc" else cover_histories(), oracle, n, seed_salt=0 if kind == "calc" else 1)


# ---------------------------------------------------------------------------


def selftest(ctx) -> None:
    """The tracker flags a calculator that breaks each clause (fake calculators)."""
    from vk.core import Ctx

    class Fake:
        def __init__(self, script):
            self.script = script

        def current_position(self):
            return self.script()

        def start_travel(self, x):
            pass

    def run_fake(values, advances):
        c = Ctx("C40", "quick", 1)
        clock = Clock(0.0)
        it = iter(values)
        tr = Tracker(c, Fake(lambda: next(it)), clock, 10.0, 20.0, {})
        tr.lk = tr.tgt = 0
        tr._begin_segment()
        try:
            tr.start_travel(100)  # consumes 2 values (pre, post)
            for a in advances:
                clock.advance_to(clock.now + a)
                tr.query()
        except Stop:
            pass
        return set(c.failures)

    assert run_fake([0, 0, 50, 100], [5.0, 5.0]) == set()
    assert run_fake([0, 0, 50, 99], [5.0, 5.1]) == {"C40:reach:late"}
    assert run_fake([0, 0, 100], [5.0]) == {"C40:reach:early"}
    assert run_fake([0, 0, 50, 49], [5.0, 1.0]) == {"C40:monotone:moved-away-from-target"}
    assert run_fake([0, 0, 101], [11.0]) == {"C40:bounds:past-target:after-end-instant"}
    assert run_fake([0, 0, 101], [10.0]) == {"C40:bounds:past-target:first-reading-not-after-end-instant"}
    assert run_fake([0, 0, None], [1.0]) == {"C40:known:estimate-unknown"}
    assert run_fake([0, 0, 50.0], [5.0]) == {"C40:type:float"}


def run(ctx) -> None:
    n_calc = ctx.n(450, 8000)
    n_cover = ctx.n(180, 3000)
    jobs = [("calc", n_calc)] * 10 + [("cover", n_cover)] * 6
    parallel(ctx, _shard, jobs)
    ctx.exhaustive = False


def replay(ctx, case) -> None:
    oracle(ctx, case)
