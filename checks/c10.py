"""C10 - complex and enum datapoint values round-trip through their JSON form.

For every DPTComplex / DPTEnum class and every value v it decodes:
  complex: j = json.loads(json.dumps(v.as_dict()))   enum: j = json.loads(json.dumps(v.name.lower()))
must succeed with the standard JSON encoder, T.to_knx(j) must accept it (DPTComplex.to_knx
takes a Mapping via data_type.from_dict, DPTEnum.to_knx takes the lower-case member name
via DPTEnumData.parse), and T.from_knx(T.to_knx(j)) == v.
Exhaustive over the decode image of all DPTBinary and 1-octet types; positional sweeps
(every octet value in every position, i.e. every combination of validity flags in a
flags octet), 16-bit field sweeps and seeded random payloads for 3..8-octet types.
"""

from __future__ import annotations

import json
import random

from vk.core import exc_site
from vk.engine import parallel
from vk.strategies import dpts as D
from xknx.dpt.dpt import DPTComplex, DPTEnum
from xknx.exceptions import ConversionError, CouldNotParseTelegram

PROPERTY = "C10"
LEVEL = "exploration"
TECHNIQUE = "round-trip oracle through json.dumps/json.loads: exhaustive decode image for <=1-octet/6-bit types, positional + field sweeps and seeded random payloads beyond"
RULE = (
    "every DPTComplex/DPTEnum class x payloads of its own shape (all DPTBinary values, all 1-octet arrays; for 3..8-octet types every octet "
    "value in every position over 7+ backgrounds, all 65536 values of adjacent octet pairs, random arrays); evaluated = accepted payloads; "
    "non-trivial = complex value with a None (invalid-flagged / optional) member or differing from the all-zero decode, enum member other than the first"
)
ASSUMPTIONS = [
    "JSON form: DPTComplexData.as_dict() / DPTEnumData member name in lower case, passed through json.dumps + json.loads (standard encoder, default options)",
    "value equality is the dataclass / enum ==",
]
LEVEL_TEXT = "exhaustive over the decode image of every complex/enum DPT with a payload of at most 1 octet (no 2-octet complex/enum types exist); sampled for 3..8 octets"
LEVEL_NOTE = "3..8-octet types are covered by positional / pair sweeps and random sampling, not exhaustively"

ALLOWED = (CouldNotParseTelegram, ConversionError)


def classes():
    return [T for T in D.all_dpt_classes() if issubclass(T, (DPTComplex, DPTEnum))]


def json_roundtrip(ctx, T, spec) -> tuple[str, object]:
    """Returns (status, value); status in rejected / decode-exc / fail / ok."""
    p = D.mk(spec)
    try:
        v = T.from_knx(p)
    except ALLOWED:
        return "rejected", None
    except Exception:  # noqa: BLE001 - C07's subject
        return "decode-exc", None
    label = D.codec_label(T)
    inp = D.case_of(T, spec)
    try:
        form = v.as_dict() if issubclass(T, DPTComplex) else v.name.lower()
    except Exception as e:  # noqa: BLE001
        ctx.fail(f"C10:form-exc:{label}:{exc_site(e)}", inp, f"{T.__name__}: {p!r} -> {v!r}; building the dict/name form raised {type(e).__name__}: {e}")
        return "fail", v
    try:
        text = json.dumps(form)
        j = json.loads(text)
    except Exception as e:  # noqa: BLE001
        ctx.fail(f"C10:json:{label}:{type(e).__name__}", inp, f"{T.__name__}: {p!r} -> {v!r}; form {form!r} not JSON serialisable: {type(e).__name__}: {e}")
        return "fail", v
    try:
        p2 = T.to_knx(j)
    except ConversionError as e:
        D.fail_capped(ctx, f"C10:encode-rejects:{label}:{D.cause_site(e)}", inp, lambda: f"{T.__name__}: {p!r} -> {v!r}; to_knx({j!r}) raised ConversionError: {e}")
        return "fail", v
    except Exception as e:  # noqa: BLE001
        ctx.fail(f"C10:encode-exc:{label}:{exc_site(e)}", inp, f"{T.__name__}: {p!r} -> {v!r}; to_knx({j!r}) raised {type(e).__name__}: {e}")
        return "fail", v
    try:
        v2 = T.from_knx(p2)
    except Exception as e:  # noqa: BLE001
        ctx.fail(f"C10:redecode-rejects:{label}", inp, f"{T.__name__}: {p!r} -> {v!r} -> {j!r} -> {p2!r}; from_knx raised {type(e).__name__}: {e}")
        return "fail", v
    if type(v2) is not type(v) or v2 != v:
        D.fail_capped(ctx, f"C10:neq:{label}", inp, lambda: f"{T.__name__}: {p!r} -> {v!r} -> {text} -> {p2!r} -> {v2!r}")
        return "fail", v
    return "ok", v


def _has_none(x) -> bool:
    if x is None:
        return True
    if isinstance(x, dict):
        return any(_has_none(y) for y in x.values())
    if isinstance(x, (list, tuple)):
        return any(_has_none(y) for y in x)
    return False


def class_worker(ctx, name: str) -> None:
    T = D.dpt_by_name(name)
    rng = random.Random(ctx.shard_seed() ^ 0xC10)
    is_enum = issubclass(T, DPTEnum)
    try:
        zero = T.from_knx(D.mk(D.zero_spec(T)))
        has_zero = True
    except Exception:  # noqa: BLE001
        zero, has_zero = None, False
    first = list(T.data_type)[0] if is_enum else None
    exhaustive = D.is_binary(T) or T.payload_length <= 2
    seen: set = set()
    gen = acc = nt = with_none = 0
    for spec in D.roundtrip_specs(T, rng, quick=ctx.quick, n_f32=0, n_random=ctx.n(2500, 80000), pairs_quick="field16"):
        gen += 1
        if not exhaustive:
            if spec in seen:
                continue
            seen.add(spec)
        st, v = json_roundtrip(ctx, T, spec)
        if st in ("rejected", "decode-exc"):
            continue
        acc += 1
        if is_enum:
            nt += v is not first
        else:
            hn = _has_none(v.as_dict()) if st != "fail" or hasattr(v, "as_dict") else False
            with_none += hn
            nt += hn or not has_zero or v != zero
    ctx.bulk(acc, nt, f"{'enum' if is_enum else 'complex'}:{D.shape(T)}")
    if with_none:
        ctx.classes["complex:value-with-None-member"] += with_none
    ctx.notes["payloads_generated"] = ctx.notes.get("payloads_generated", 0) + gen
    if name in ("DPTDateTime", "DPTHVACContrMode", "DPTSwitch", "DPTColorXYY", "DPTControlDimming", "DPTTariffActiveEnergy"):
        ctx.sample({"dpt": name, "shape": D.shape(T), "generated": gen, "accepted": acc, "nontrivial": nt, "with_none_member": with_none})


def run(ctx) -> None:
    cl = classes()
    ctx.notes["complex_classes"] = sum(issubclass(T, DPTComplex) for T in cl)
    ctx.notes["enum_classes"] = sum(issubclass(T, DPTEnum) for T in cl)
    parallel(ctx, class_worker, [(T.__name__,) for T in cl])
    ctx.exhaustive = True  # every DPTBinary / 1-octet complex and enum type over its whole payload space


def replay(ctx, case) -> None:
    T = D.dpt_by_name(case["dpt"])
    spec = D.spec_of_case(case)
    json_roundtrip(ctx, T, spec)
    ctx.case(("replay", case["dpt"], spec), nontrivial=True, cls="replay")
