"""C02 - group address filters match exactly the addresses their pattern denotes.

Patterns are generated as structured values from the documented grammar (1..3 levels of
comma-separated items n | a-b | -b | a- | *), rendered to text for AddressFilter and judged by
the reference matcher in vk/ref/addrfilter.py, which works on the structure.  Addresses: every
combination of values within +-1 of each range end (sub-sampled to <= 600) plus random ones,
and all 65,536 addresses for a subset of patterns.  Internal 'i-' globs ('*', '?') against
generated internal addresses judged by a reference glob.  Independence: the same question is
asked again after unrelated matches, on a fresh filter object, and after switching the global
notation away and back.
"""

from __future__ import annotations

import gc

from hypothesis import strategies as st

from vk.core import exc_site
from vk.engine import hyp_collect, hyp_shrink, parallel
from vk.ref import addrfilter as R
from xknx.core.telegram_queue import TelegramQueue
from xknx.telegram import Telegram, TelegramDirection
from xknx.telegram.address import GroupAddress, GroupAddressType, InternalGroupAddress
from xknx.telegram.address_filter import AddressFilter

PROPERTY = "C02"
LEVEL = "exploration"
TECHNIQUE = "property-based testing (Hypothesis) of grammar-generated patterns vs independent reference matcher"
LEVEL_TEXT = (
    "Randomly generated filter patterns of the documented grammar were evaluated on boundary addresses "
    "(+-1 around every range end), random addresses and, for a subset, all 65,536 group addresses, and "
    "compared with a reference matcher; a generated search can refute the property, not prove it."
)
LEVEL_NOTE = (
    "Trusted base: vk/ref/addrfilter.py (structured-pattern matcher and 20-line glob, self-tested on the "
    "documented examples). Only patterns of the documented grammar are generated (no bare '-', no empty "
    "items, no '[..]' classes, no whitespace, ASCII digits without sign)."
)
RULE = (
    "Hypothesis draws a structured pattern (1-3 levels, 1-4 items per level, numbers biased to 0, level "
    "maximum, maximum+1, 65535, 65536) and the notation is set to its level count; it is evaluated on the "
    "product of the values within +-1 of every range end per level (sub-sampled to <= 600 addresses) plus 8 "
    "random addresses, a subset of patterns on all 65,536 addresses; internal globs on names derived from the "
    "pattern (matching, mutated) and random names. evaluations counts (pattern, address) pairs; "
    "distinct_nontrivial counts distinct pattern texts that have an open / reversed / clamped range or >= 2 "
    "items on a level (each evaluated on boundary addresses) and distinct internal globs containing * or ?"
)
ASSUMPTIONS = [
    "numbers above 65535 are clamped to 65535 as the filter documents in its own helper (_adjust_range); consequently the item '65536' denotes 65535 in free notation",
    "a pattern is evaluated only in the notation with the same number of levels (the property's 'matching notation')",
    "integer / string address arguments are not used for the broadcast address 0, which parse_device_group_address rejects by contract",
    "internal globs are case-sensitive and leading/trailing whitespace of names is outside the grammar",
]

FMT = {3: GroupAddressType.LONG, 2: GroupAddressType.SHORT, 1: GroupAddressType.FREE}
_ADDR: list[GroupAddress] = []


def addr(raw: int) -> GroupAddress:
    if not _ADDR:
        _ADDR.extend(GroupAddress(r) for r in range(65536))
    return _ADDR[raw]


def selftest(ctx) -> None:
    R.selftest()


# --------------------------------------------------------------------------- strategies
def _num(m: int):
    return st.one_of(
        st.sampled_from([0, 1, max(m - 1, 0), m, m + 1, 65535, 65536, 70000]),
        st.integers(0, m),
        st.integers(0, m),
        st.integers(0, 70000),
    )


def _item(m: int):
    n = _num(m)
    return st.one_of(
        st.tuples(st.just("n"), n).map(list),
        st.tuples(st.just("r"), n, n).map(list),
        st.tuples(st.just("r"), n, n).map(list),
        st.tuples(st.just("lo"), n).map(list),
        st.tuples(st.just("hi"), n).map(list),
        st.just(["*"]),
    )


def _levels():
    def build(nl: int):
        return st.tuples(*[st.lists(_item(m), min_size=1, max_size=4) for m in R.LEVEL_MAX[nl]]).map(list)

    return st.integers(1, 3).flatmap(build)


GROUP_CASES = st.fixed_dictionaries(
    {
        "levels": _levels(),
        "seed": st.integers(0, 2**32 - 1),  # drives sub-sampling and the 8 random addresses
    }
)
SWEEP_CASES = st.fixed_dictionaries({"levels": _levels().filter(R.interesting), "sweep": st.just(True)})

_BODY_ALPHA = "abtes019" + "***???" + "-_. AB"
_NAME_ALPHA = "abtesxyz019-_. AB[]"
_FILL = st.text(alphabet=st.sampled_from("abtesxz01-_ A"), max_size=3)


def _trim_ok(s: str) -> bool:
    return bool(s) and s == s.strip()


@st.composite
def internal_case(draw):
    prefix = draw(st.sampled_from(["i-", "i-", "i_", "i"]))
    body = draw(st.text(alphabet=st.sampled_from(_BODY_ALPHA), min_size=1, max_size=8).filter(_trim_ok))
    if prefix == "i" and body[0] in "-_":
        prefix = "i-"
    names = []
    # names that should match: fill the wildcards
    for _ in range(2):
        s = "".join(draw(_FILL) if c == "*" else (draw(st.sampled_from("abtesxz01-_A")) if c == "?" else c) for c in body)
        names.append(s)
    # mutations of a matching name
    base = names[0]
    if base:
        i = draw(st.integers(0, len(base) - 1))
        names.append(base[:i] + base[i + 1 :])
        names.append(base[:i] + draw(st.sampled_from("abxQ9")) + base[i + 1 :])
        names.append(base + draw(st.sampled_from("abx9")))
        names.append(base.swapcase())
    names.append(body)  # the glob text itself as a name
    names += draw(st.lists(st.text(alphabet=st.sampled_from(_NAME_ALPHA), min_size=1, max_size=8), max_size=3))
    names = [n for n in names if _trim_ok(n)]
    return {"internal": {"prefix": prefix, "body": body, "names": names}}


# --------------------------------------------------------------------------- oracle (group patterns)
def _diagnose(levels, raw: int, exp: bool) -> str:
    """Root-cause key: the first single item / level whose own answer differs from the reference."""
    side = "false-negative" if exp else "false-positive"
    vals = R.split(raw, len(levels))
    try:
        for lv, v in zip(levels, vals):
            for it in lv:
                e = R.item_match(it, v)
                if bool(AddressFilter.Range(R.render_item(it)).match(v)) != e:
                    return f"C02:range-neq:{R.item_kind(it)}"
            e = R.level_match(lv, v)
            if bool(AddressFilter.LevelFilter(R.render_level(lv)).match(v)) != e:
                return "C02:level-neq"
    except Exception:  # noqa: BLE001 - diagnosis only
        pass
    return f"C02:filter-neq:L{len(levels)}:{side}"


def _select_addresses(levels, seed: int, extra: list[int]) -> tuple[list[int], int]:
    n = len(levels)
    maxes = R.LEVEL_MAX[n]
    cands = []
    for lv, m in zip(levels, maxes):
        c = set(R.boundary_values(lv, m))
        c.update((0, m))
        cands.append(sorted(c))
    total = 1
    for c in cands:
        total *= len(c)
    chosen: set[int] = set()
    cap = 600
    if total <= cap:
        for k in range(total):
            r = k
            vals = []
            for c in cands:
                r, j = divmod(r, len(c))
                vals.append(c[j])
            chosen.add(R.join(vals, n))
    else:
        x = seed & 0xFFFFFFFF
        for _ in range(cap):
            vals = []
            for c in cands:
                x = (x * 1664525 + 1013904223) & 0xFFFFFFFF
                vals.append(c[(x >> 8) % len(c)])
            chosen.add(R.join(vals, n))
    nb = len(chosen)
    chosen.update(e & 0xFFFF for e in extra)
    x = (seed ^ 0x9E3779B9) & 0xFFFFFFFF
    for _ in range(8):  # random addresses, a pure function of the drawn seed
        x = (x * 1664525 + 1013904223) & 0xFFFFFFFF
        chosen.add(x >> 16)
    return sorted(chosen), nb


def _match(ctx, f, a, inp, what: str):
    try:
        g = f.match(a)
    except Exception as e:  # noqa: BLE001
        ctx.fail(f"C02:match-exc:{what}:{exc_site(e)}", inp, f"match({a!r}) raised {e!r}")
        return None
    if not isinstance(g, bool):
        ctx.fail(f"C02:match-not-bool:{what}", inp, f"match({a!r}) returned {g!r}")
        return None
    return g


def check_group(ctx, case) -> None:
    levels = case["levels"]
    n = len(levels)
    text = R.render(levels)
    sweep = bool(case.get("sweep"))
    inp = {"levels": levels, "pattern": text}
    if sweep:
        inp["sweep"] = True
    else:
        inp["seed"] = case.get("seed", 0)
        inp["extra"] = case.get("extra", [])
    saved = GroupAddress.address_format
    try:
        GroupAddress.address_format = FMT[n]
        try:
            f = AddressFilter(text)
        except Exception as e:  # noqa: BLE001
            ctx.fail(f"C02:construct-exc:{exc_site(e)}", inp, f"AddressFilter({text!r}) raised {e!r}")
            ctx.case(("g", text), False, "construct-failed")
            return
        if sweep:
            tables = [[R.level_match(lv, v) for v in range(m + 1)] for lv, m in zip(levels, R.LEVEL_MAX[n])]
            addresses = range(65536)
            nb = 65536
        else:
            tables = None
            addresses, nb = _select_addresses(levels, int(case.get("seed", 0)), list(case.get("extra", [])))
        n_true = 0
        first: dict[int, bool] = {}
        for raw in addresses:
            if tables is None:
                exp = R.match(levels, raw)
            else:
                exp = all(t[v] for t, v in zip(tables, R.split(raw, n)))
            got = _match(ctx, f, addr(raw), {**inp, "address": raw}, "group")
            if got is None:
                continue
            n_true += exp
            if len(first) < 48 or (got and len(first) < 64):
                first[raw] = got
            if got != exp:
                ctx.fail(_diagnose(levels, raw, exp), {**inp, "address": raw}, f"AddressFilter({text!r}).match({R.split(raw, n)}) = {got}, reference {exp}")
        # ---- depends on nothing else: same object again (after all the unrelated matches above),
        # fresh object, notation switched away and back, str / int argument forms, queue callback
        f2 = AddressFilter(text)
        other = FMT[1 if n == 3 else 3]
        cb = TelegramQueue.Callback(lambda t: None, address_filters=[AddressFilter(text)])
        for k, (raw, got) in enumerate(reversed(list(first.items()))):
            a = addr(raw)
            sub = {**inp, "address": raw}
            if _match(ctx, f, a, sub, "group") != got:
                ctx.fail("C02:not-repeatable:same-object", sub, f"{text!r} on {raw}: first {got}, later different")
            if _match(ctx, f2, a, sub, "group") != got:
                ctx.fail("C02:not-repeatable:fresh-object", sub, f"{text!r} on {raw}: fresh filter object disagrees with {got}")
            if k % 4 == 0:
                GroupAddress.address_format = other
                _ = str(a), AddressFilter("1" if other is GroupAddressType.FREE else "1/2/3").match(GroupAddress(2563))
                GroupAddress.address_format = FMT[n]
                if _match(ctx, f, a, sub, "group") != got:
                    ctx.fail("C02:not-repeatable:notation-toggled", sub, f"{text!r} on {raw}: differs after switching the notation away and back")
            if raw != 0 and k < 16:
                if _match(ctx, f, raw, sub, "int-arg") != got:
                    ctx.fail("C02:argument-form:int", sub, f"{text!r}: match({raw}) differs from match(GroupAddress({raw})) = {got}")
                s = str(a)
                if _match(ctx, f, s, sub, "str-arg") != got:
                    ctx.fail("C02:argument-form:str", sub, f"{text!r}: match({s!r}) differs from match(GroupAddress) = {got}")
            if k < 8:
                try:
                    w = cb.is_within_filter(Telegram(destination_address=GroupAddress(raw), direction=TelegramDirection.INCOMING))
                except Exception as e:  # noqa: BLE001
                    ctx.fail(f"C02:callback-exc:{exc_site(e)}", sub, repr(e))
                else:
                    if w != got:
                        ctx.fail("C02:callback-filter-neq", sub, f"Callback.is_within_filter = {w}, AddressFilter.match = {got}")
        # a group pattern denotes no internal address
        if _match(ctx, f, InternalGroupAddress("i-1"), inp, "internal-arg") not in (False, None):
            ctx.fail("C02:group-pattern-matches-internal", inp, f"{text!r} matched InternalGroupAddress('i-1')")
    finally:
        GroupAddress.address_format = saved
    kinds = sorted({R.item_kind(it) for lv in levels for it in lv})
    inter = R.interesting(levels)
    labels = [f"levels:{n}", "sweep-65536" if sweep else "boundary+random"] + [f"item:{k}" for k in kinds]
    labels.append("multi-item-level" if any(len(lv) > 1 for lv in levels) else "single-item-levels")
    ctx.case(("g", text, sweep), inter, labels, sample={"pattern": text, "addresses": len(addresses), "boundary": nb, "matching": n_true} if inter else None)
    ctx.evaluations += len(addresses) - 1
    ctx.notes["address_evaluations"] = ctx.notes.get("address_evaluations", 0) + len(addresses)
    ctx.notes["expected_true_evaluations"] = ctx.notes.get("expected_true_evaluations", 0) + n_true
    if sweep:
        ctx.notes["full_sweep_patterns"] = ctx.notes.get("full_sweep_patterns", 0) + 1


# --------------------------------------------------------------------------- oracle (internal globs)
def check_internal(ctx, case) -> None:
    c = case["internal"]
    prefix, body, names = c["prefix"], c["body"], list(c["names"])
    text = prefix + body
    inp = {"internal": {"prefix": prefix, "body": body, "names": names}}
    try:
        f = AddressFilter(text)
        f2 = AddressFilter("i-" + body)
    except Exception as e:  # noqa: BLE001
        ctx.fail(f"C02:construct-exc:internal:{exc_site(e)}", inp, f"AddressFilter({text!r}) raised {e!r}")
        ctx.case(("i", text), False, "construct-failed")
        return
    n_true = 0
    results = []
    for k, name in enumerate(names):
        exp = R.glob_match(body, name)
        n_true += exp
        sub = {"internal": {"prefix": prefix, "body": body, "names": [name]}}
        forms = ["i-" + name, "i_" + name, "I-" + name]
        if name[0] not in "-_":
            forms.append("i" + name)
        form = forms[k % len(forms)]
        try:
            a = InternalGroupAddress(form)
        except Exception as e:  # noqa: BLE001
            ctx.fail(f"C02:internal-address-exc:{exc_site(e)}", sub, repr(e))
            continue
        got = _match(ctx, f, a, sub, "internal")
        if got is None:
            continue
        results.append((a, form, got, sub))
        if got != exp:
            ctx.fail(f"C02:glob-neq:{'false-negative' if exp else 'false-positive'}", sub, f"AddressFilter({text!r}).match({form!r}) = {got}, reference glob {exp}")
    for a, form, got, sub in reversed(results):
        if _match(ctx, f, a, sub, "internal") != got:
            ctx.fail("C02:not-repeatable:same-object", sub, f"{text!r} on {form!r}")
        if _match(ctx, f2, a, sub, "internal") != got:
            ctx.fail("C02:not-repeatable:fresh-object", sub, f"{text!r} vs 'i-'+body on {form!r}")
        if _match(ctx, f, form, sub, "str-arg") != got:
            ctx.fail("C02:argument-form:str", sub, f"{text!r}: match({form!r}) differs from match(InternalGroupAddress) = {got}")
    # an internal glob denotes no group address
    if _match(ctx, f, addr(2563), inp, "group-arg") not in (False, None):
        ctx.fail("C02:internal-pattern-matches-group", inp, f"{text!r} matched GroupAddress(2563)")
    wild = "*" in body or "?" in body
    labels = ["internal", f"prefix:{prefix}", "glob:wildcards" if wild else "glob:literal"]
    ctx.case(("i", text), wild and bool(names), labels, sample={"pattern": text, "names": names[:4], "matching": n_true} if wild else None)
    ctx.evaluations += max(len(names) - 1, 0)
    ctx.notes["internal_name_evaluations"] = ctx.notes.get("internal_name_evaluations", 0) + len(names)
    ctx.notes["internal_expected_true"] = ctx.notes.get("internal_expected_true", 0) + n_true


def oracle(ctx, case) -> None:
    if "internal" in case:
        check_internal(ctx, case)
    else:
        check_group(ctx, case)


# --------------------------------------------------------------------------- run / replay
# Workers only collect (vk.engine.hyp_collect); the shrink step of collect-then-shrink runs once in
# the parent (vk.engine.hyp_shrink per new bucket) instead of once per shard, which is the same
# procedure as vk.engine.hyp_search without repeating the shrink in each of the 30+ shards.
def _group_job(ctx, n: int) -> None:
    hyp_collect(ctx, GROUP_CASES, oracle, n)


def _internal_job(ctx, n: int) -> None:
    hyp_collect(ctx, internal_case(), oracle, n, seed_salt=101)


def _sweep_job(ctx, n: int) -> None:
    hyp_collect(ctx, SWEEP_CASES, oracle, n, seed_salt=202)


def _shrink_new(ctx, before: set) -> None:
    new = [b for b in ctx.failures if b not in before and b not in ctx.excluded]
    cap = 8.0 if ctx.quick else 90.0
    for b in new[:8]:
        internal = any("internal" in (r.get("input") or {}) for r in ctx.failures[b])
        rec = hyp_shrink(ctx, internal_case() if internal else GROUP_CASES, oracle, b, cap, seed_salt=303)
        if rec is not None:
            lst = ctx.failures[b]
            lst.insert(0, {**rec, "shrunk": True})
            lst.sort(key=lambda r: r["size"])
            del lst[3:]


def _job(ctx, kind: str, n: int) -> None:
    {"group": _group_job, "internal": _internal_job, "sweep": _sweep_job}[kind](ctx, n)


DOCUMENTED = [
    [[["n", 1]], [["*"]], [["r", 2, 5]]],
    [[["n", 1]], [["r", 1, 3], ["n", 4], ["n", 5]], [["*"]]],
    [[["n", 1]], [["n", 2]], [["lo", 10]]],
    [[["*"]], [["r", 2, 5]]],
    [[["r", 1, 3], ["n", 4], ["n", 5]], [["*"]]],
    [[["n", 2]], [["lo", 10]]],
    [[["r", 2, 5]]],
    [[["r", 1, 3], ["n", 4], ["n", 5]]],
    [[["lo", 10]]],
]


def run(ctx) -> None:
    before = set(ctx.failures)
    addr(0)  # build the address table before forking
    for lv in DOCUMENTED:  # the module's documented examples, on all addresses
        check_group(ctx, {"levels": lv, "sweep": True})
    for body, names in (("test", ["test", "tes", "Test"]), ("t?st", ["test", "tst", "tXst"]), ("t*t", ["tt", "test", "tes"])):
        check_internal(ctx, {"internal": {"prefix": "i-", "body": body, "names": names}})
    shards = 16
    g = ctx.n(3200, 51200) // shards
    i = ctx.n(1600, 25600) // 4
    s = ctx.n(3, 13)
    jobs = [("group", g)] * shards + [("internal", i)] * 4 + [("sweep", s)] * shards
    gc.collect()
    gc.freeze()  # keep the forked workers' collectors off the shared heap (copy-on-write storms)
    try:
        parallel(ctx, _job, jobs)
    finally:
        gc.unfreeze()
    _shrink_new(ctx, before)


def replay(ctx, case) -> None:
    if "internal" in case:
        check_internal(ctx, case)
    elif "levels" in case:
        c = dict(case)
        if "address" in c and not c.get("sweep"):
            c["extra"] = list(c.get("extra", [])) + [int(c["address"])]
        check_group(ctx, c)
