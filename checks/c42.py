"""C42 - timed resets and press counters behave as configured.

A real `Switch` / `BinarySensor` (options `reset_after`, `context_timeout`, `invert`,
`ignore_internal_state`) lives in a real XKNX (telegram queue, task registry, stub
interface) on the virtual-time loop; `time.time` as read by xknx.devices.binary_sensor is
the loop's virtual clock. Histories of on/off GroupValueWrite / GroupValueResponse
telegrams with inter-arrival gaps around the thresholds (exactly at, one tick below /
above, half, double, zero) are generated as data and interpreted against the device and
a reference timer / counter model:

* reset: the device state sampled after every settled step equals the model; an 'off'
  report (device callback; for Switch also the GroupValueWrite on the stub interface)
  exists at exactly last-'on' + reset_after when nothing arrives in between, and no
  reset report happens at any instant that is not `on_i + reset_after` for an 'on' that
  was not followed by a later 'on' inside its period (a later 'on' restarts the timer);
* counter: telegrams are grouped into bursts (successive gaps < context_timeout, separated
  by gaps >= context_timeout). When a burst closes (last telegram + timeout) the device
  reports state and counter once and then counter 0; for a same-state burst of k telegrams
  the reported counter is k. Mixed-state bursts: only timing / no exception / final state.

All times are multiples of 1/64 s so that every sum is exact in binary floating point.
"""

from __future__ import annotations

import asyncio
import itertools
import os
from types import SimpleNamespace
from unittest.mock import patch

from hypothesis import strategies as st

from vk.core import HarnessError, cpu_count, exc_site
from vk.engine import hyp_search, parallel
from vk.vloop import BudgetExceeded, Deadlock, run_case
from vk.xharness import XH

PROPERTY = "C42"
LEVEL = "exploration"
TECHNIQUE = "model-based history testing (bounded exhaustive gap/kind enumeration + Hypothesis histories) of real Switch/BinarySensor on a virtual-time loop vs reference timer/counter model"
RULE = (
    "case = (device kind: switch | binary sensor with reset_after | with context_timeout | with both, thresholds from {0.5,1,2.5} s, invert, ignore_internal_state, always_callback, "
    "address layout: single address | command + state + passive addresses (each telegram delivered on any of the device's addresses), "
    "injection mode: through cEMI+telegram queue or Device.process directly, history of [gap, settle, on/off write/response, settle] steps); "
    "all histories of up to 3 (quick) / 4 (thorough) telegrams with gaps from {0, thr/2, thr-1/64, thr, thr+1/64, 2*thr} are enumerated per configuration, for the multi-address Switch up to 3 telegrams over {on@command, on@state, on@passive, off@state}, for the BinarySensor with reset_after and (with and without always_callback) with context_timeout up to 3 telegrams over {on, off} x {write, response}; longer ones (<= 10 telegrams) sampled; "
    "non-trivial = at least two telegrams with some inter-arrival gap <= threshold + 1/64 s (a timer restart, a burst, a boundary or an exact tie is exercised); distinct by case"
)
LEVEL_TEXT = "Generated on/off telegram histories are run against the real devices in virtual time; state samples, device callbacks, counter values and the reset telegrams on a recording interface are compared with a reference timer/counter model written from the property statement."
LEVEL_NOTE = "Virtual time, single-threaded asyncio, stub interface below KNXIPInterface that confirms every frame; the clock read by binary_sensor is the loop clock; histories bounded (<= 10 telegrams; exhaustive up to 3/4)."
ASSUMPTIONS = [
    "all instants are multiples of 1/64 s (exact in binary floating point); 'exactly' means equality of virtual-clock readings",
    "simultaneous events (a telegram arriving at the very instant a reset or context deadline expires) may be served in either order: the report of the expiring deadline is optional there, a Switch's state is not asserted until its next event, but every report that is made must carry the right time and counter",
    "an 'off' telegram before the deadline: the statement does not say whether the timer is cancelled; a redundant 'off' report at last-'on' + reset_after is tolerated (counted in notes), a missing one too",
    "BinarySensor with reset_after is driven with GroupValueWrite and GroupValueResponse telegrams ('on'/'off'), every 'on' it processes, write or response, restarts the reset timer; one situation is kept out of the judged domain: an 'on' GroupValueResponse that arrives after a timed reset (or at the very instant the timer expires) and before any GroupValueWrite / 'off' response - on the pinned tree the value last seen on the bus is still 'on' then, so the device deliberately treats the answer as unchanged (statement silent on state-sync answers); such histories are not generated / skipped on replay (counted in notes)",
    "BinarySensor with context_timeout: only GroupValueWrite telegrams count and (re)start the context window; a GroupValueResponse is a state report that neither increments the counter nor restarts / extends the window. Judged are responses that repeat the current state: with always_callback=False they cause no callback at all, with always_callback=True the unchanged tree calls the device callback right away (only the reported state is checked, in bucket C42:response-callback). Kept out of the judged domain (not generated / skipped, counted in notes) because the pinned tree treats them as events and the statement is silent: a response that changes the state or is the first telegram ever, one arriving at the very instant the context closes or the reset timer expires; Switch is driven with writes and responses",
    "mixed-state bursts and devices with both reset_after and context_timeout: only report timing (both reports at the close instant, second with counter 0), state samples and absence of exceptions are asserted",
    "every 'on' telegram the device processes restarts the reset timer, whatever address of the device (command, state, passive) it arrived on; the Switch's own reset telegram goes to its command address",
    "rate limit 0; sync_state off (no GroupValueRead traffic); device driven either through the cEMI receive path + telegram queue or by Device.process() directly (as xknx.devices.process and the unit tests do)",
]

TICK = 1.0 / 64
GA = "1/2/3"
# multi-address layout: index of the address a telegram is delivered on
#   Switch: 0 command address, 1 state address, 2 passive of group_address, 3 passive of group_address_state
#   BinarySensor: 0 state address, 1 passive of group_address_state
ADDRS = {"switch": ["1/2/3", "1/2/4", "1/2/5", "1/2/6"], "bs": ["1/2/3", "1/2/5"]}
THRESHOLDS = [32, 64, 160]
DEVS = ["switch", "bs_reset", "bs_ctx", "bs_both"]
KINDS = ["on", "off", "ron", "roff"]
SETTLE_ITERS = 14


# --------------------------------------------------------------------------- execution


def _events(case):
    """Telegram events (t_ticks, on, is_write, seq) and sample points from the data."""
    t = 0
    ev = []
    for i, (gap, _sa, kind, _sb, *_ai) in enumerate(case["steps"]):
        t += gap
        ev.append((t, kind in ("on", "ron"), kind in ("on", "off"), i))
    return ev


def tail_ticks(case) -> int:
    return 2 * max(case.get("R") or 0, case.get("T") or 0) + 8


def in_domain(case) -> bool:
    """False for the situations kept out of the judged domain (see ASSUMPTIONS):

    * BinarySensor with reset_after: an 'on' GroupValueResponse after a timed reset (or exactly
      at the expiry) and before any write / 'off' response;
    * BinarySensor with context_timeout: a GroupValueResponse that does not repeat the current
      state (first telegram ever, state-changing answer), one arriving at the very instant the
      reset timer expires or (counter sensor) the context closes.
    """
    dev = case["dev"]
    if dev == "switch":
        return True
    R = case.get("R")
    T = case.get("T") if dev in ("bs_ctx", "bs_both") else None
    if not R and not T:
        return True
    state = None
    deadline = None
    stale = False  # timed reset happened, value last seen on the bus still 'on'
    writes_at = set()
    for t, is_on, is_write, _i in _events(case):
        if R and state and deadline is not None and deadline <= t:
            if T and not is_write and deadline == t:
                return False
            state, deadline, stale = False, None, True
        if is_write:
            stale = False
            state = is_on
            deadline = t + R if (R and is_on) else None
            writes_at.add(t)
            continue
        if T:
            if state is None or is_on != state:
                return False
            if dev == "bs_ctx" and (t - T) in writes_at:
                return False  # a context may close at this very instant
        if is_on:
            if stale:
                return False
            state = True
            deadline = t + R if R else None
        else:
            stale = False
            state, deadline = False, None
    return True


def execute(case):
    from xknx.devices import BinarySensor, Switch
    from xknx.dpt import DPTBinary
    from xknx.telegram import GroupAddress, IndividualAddress, Telegram, TelegramDirection
    from xknx.telegram.apci import GroupValueResponse, GroupValueWrite

    obs = {"cb": [], "stub": [], "samples": [], "exc": []}
    R = case.get("R")
    T = case.get("T")
    inv = bool(case.get("invert"))
    clock = SimpleNamespace(time=lambda: 0.0)

    async def scenario(loop):
        clock.time = loop.time
        h = await XH.create(loop, rate_limit=0)
        h.connect()
        kind = case["dev"]
        multi = case.get("addrs") == "multi"
        addr_pool = (ADDRS["switch"] if kind == "switch" else ADDRS["bs"]) if multi else [GA]
        if kind == "switch":
            a = ADDRS["switch"]
            dev = Switch(
                h.xknx,
                "dut",
                group_address=[a[0], a[2]] if multi else GA,
                group_address_state=[a[1], a[3]] if multi else None,
                sync_state=False,
                invert=inv,
                reset_after=R * TICK,
            )
        else:
            dev = BinarySensor(
                h.xknx,
                "dut",
                group_address_state=ADDRS["bs"] if multi else GA,
                sync_state=False,
                invert=inv,
                ignore_internal_state=bool(case.get("iis")),
                always_callback=bool(case.get("acb")),
                reset_after=R * TICK if kind in ("bs_reset", "bs_both") else None,
                context_timeout=T * TICK if kind in ("bs_ctx", "bs_both") else None,
            )
        dev.register_device_updated_cb(lambda d: obs["cb"].append((loop.time(), d.state, getattr(d, "counter", None))))
        h.xknx.devices.async_add(dev)

        async def settle(i):
            for _ in range(SETTLE_ITERS):
                await asyncio.sleep(0)
            obs["samples"].append((i, loop.time(), dev.state, getattr(dev, "counter", None)))

        now = 0
        for i, (gap, settle_a, k, settle_b, *ai) in enumerate(case["steps"]):
            dest = addr_pool[(ai[0] if ai else 0) % len(addr_pool)]
            if gap:
                await asyncio.sleep(gap * TICK)
                now += gap
                if loop.time() != now * TICK:
                    raise HarnessError(f"virtual clock {loop.time()} != {now * TICK}")
                if settle_a:
                    await settle(i - 0.5)
            on = k in ("on", "ron")
            value = DPTBinary(int(on != inv))
            payload = GroupValueWrite(value) if k in ("on", "off") else GroupValueResponse(value)
            tg = Telegram(destination_address=GroupAddress(dest), payload=payload, source_address=IndividualAddress("1.1.5"), direction=TelegramDirection.INCOMING)
            if case["mode"] == "bus":
                h.inject_ind(tg)
            else:
                try:
                    dev.process(tg)
                except Exception as e:  # noqa: BLE001
                    obs["exc"].append((i, exc_site(e), repr(e)))
            if settle_b:
                await settle(i)
        await asyncio.sleep(tail_ticks(case) * TICK)
        await settle(len(case["steps"]))
        for r in h.stub.sent:
            tg = r["telegram"]
            if tg is None:
                obs["stub"].append((r["t"], "?", None, None))
                continue
            p = tg.payload
            v = getattr(p, "value", None)
            obs["stub"].append((r["t"], type(p).__name__, getattr(v, "value", None), str(tg.destination_address)))
        await h.close()

    with patch("xknx.devices.binary_sensor.time", clock):
        _, loop = run_case(scenario, max_iters=200_000)
    obs["escaped"] = [(e["repr"], e["message"]) for e in loop.escaped]
    return obs


# --------------------------------------------------------------------------- reference model


def reset_model(events, R):
    """Allowed / required reset instants and ties from the 'on' events (ticks)."""
    ons = [e for e in events if e[1]]
    allowed = set()
    required = set()
    ties = set()  # 'on' arriving exactly when a pending deadline expires
    for o in ons:
        D = o[0] + R
        if any(o[0] < p[0] < D for p in ons):
            continue  # restarted by a later 'on'
        allowed.add(D)
        if any(p[0] == D for p in ons if p[3] > o[3]):
            ties.add(D)
        if not any(e[3] > o[3] and e[0] <= D for e in events):
            required.add(D)
    return allowed, required, ties


def reset_state(events, R, t, is_switch):
    """Model state at a settled sample instant t (ticks). Returns (known, state)."""
    seen = [e for e in events if e[0] <= t]
    if not seen:
        return True, None
    last = seen[-1]
    if not last[1]:
        return True, False
    # last telegram is an 'on'; all 'on's at that same instant share the deadline
    D = last[0] + R
    if is_switch:
        # tie: a previous period expired exactly when this 'on' arrived -> own 'off' telegram races with it
        ons = [e for e in seen if e[1]]
        for p in ons:
            if p[0] + R == last[0] and not any(p[0] < q[0] < last[0] for q in ons):
                if t < D:
                    return False, None
    return True, t < D


def bursts(events, T):
    out = []
    for e in events:
        if out and e[0] - out[-1][-1][0] < T:
            out[-1].append(e)
        else:
            out.append([e])
    return out


def selftest(ctx) -> None:
    ev = [(0, True, True, 0), (32, True, True, 1), (200, True, True, 2), (264, True, True, 3)]
    allowed, required, ties = reset_model(ev, 64)
    assert allowed == {96, 264, 328} and required == {96, 328} and ties == {264}, (allowed, required, ties)
    assert reset_state(ev[:2], 64, 95, False) == (True, True)
    assert reset_state(ev[:2], 64, 96, False) == (True, False)
    assert reset_state(ev, 64, 300, True) == (False, None)
    assert reset_state(ev, 64, 300, False) == (True, True)
    b = bursts([(0, True, True, 0), (63, True, True, 1), (127, False, True, 2), (191, True, True, 3)], 64)
    assert [len(x) for x in b] == [2, 1, 1]
    base = {"dev": "bs_reset", "R": 64, "mode": "bus"}
    assert in_domain(dict(base, steps=[[0, True, "on", True], [32, True, "ron", True]]))  # response while the timer runs
    assert not in_domain(dict(base, steps=[[0, True, "on", True], [64, True, "ron", True]]))  # at the expiry
    assert not in_domain(dict(base, steps=[[0, True, "on", True], [100, True, "ron", True]]))  # after the timed reset
    assert in_domain(dict(base, steps=[[0, True, "on", True], [100, True, "off", True], [1, True, "ron", True]]))  # a write in between
    assert in_domain(dict(base, dev="switch", steps=[[0, True, "on", True], [100, True, "ron", True]]))
    cx = {"dev": "bs_ctx", "T": 64, "mode": "bus"}
    assert in_domain(dict(cx, steps=[[0, True, "on", True], [32, True, "ron", True]]))  # state report repeating the state
    assert not in_domain(dict(cx, steps=[[0, True, "on", True], [32, True, "roff", True]]))  # state-changing answer
    assert not in_domain(dict(cx, steps=[[0, True, "ron", True]]))  # first telegram ever
    assert not in_domain(dict(cx, steps=[[0, True, "on", True], [64, True, "ron", True]]))  # at the close instant


# --------------------------------------------------------------------------- oracle


def judge(ctx, case, obs) -> None:
    inp = case
    dev = case["dev"]
    R = case.get("R")
    T = case.get("T")
    events = _events(case)
    is_switch = dev == "switch"
    for i, site, rep in obs["exc"]:
        ctx.fail(f"C42:process-raised:{site}", inp, f"step {i}: {rep}")
    for rep, msg in obs["escaped"]:
        ctx.fail(f"C42:escaped:{rep.split('(')[0]}", inp, f"{rep} {msg}")
    has_reset = dev in ("switch", "bs_reset", "bs_both")
    has_ctx = dev in ("bs_ctx", "bs_both")

    def ticks(t):
        q = t / TICK
        return int(q) if q == int(q) else q

    # ---- state samples ---------------------------------------------------
    for idx, t, state, counter in obs["samples"]:
        tt = ticks(t)
        seen = [e for e in events if e[3] <= idx]
        if has_reset:
            known, exp = reset_state(seen, R, tt, is_switch)
        else:
            known, exp = True, (seen[-1][1] if seen else None)
        if known and state != exp:
            ctx.fail(f"C42:state:{dev}", inp, f"after step {idx} at t={tt}/64 s device state {state}, reference {exp}")
            break
    # ---- reset reports -----------------------------------------------------
    if has_reset and dev != "bs_both":
        allowed, required, ties = reset_model(events, R)
        on_times = {e[0] for e in events if e[1]}
        off_times = {e[0] for e in events if not e[1]}
        cb_off = set()
        for t, state, _c in obs["cb"]:
            tt = ticks(t)
            if state is True:
                if tt not in on_times:
                    ctx.fail(f"C42:on-report-unexpected:{dev}", inp, f"callback with state on at t={tt}/64 s without an 'on' telegram")
            elif state is False:
                cb_off.add(tt)
                if tt not in off_times and tt not in allowed:
                    ctx.fail(f"C42:reset-time:{dev}", inp, f"'off' reported at t={tt}/64 s; reset_after={R}/64 s, 'on' telegrams at {sorted(on_times)}, allowed reset instants {sorted(allowed)}")
        for D in sorted(required - ties):
            # Switch: the report is the reset telegram (below); its callback only fires on a state change
            if D not in cb_off and not is_switch:
                ctx.fail(f"C42:reset-missing:{dev}", inp, f"no 'off' report at t={D}/64 s (last 'on' + reset_after); callbacks {[(ticks(t), s) for t, s, _ in obs['cb']]}")
        if is_switch:
            sent_at = set()
            for t, kind, value, dest in obs["stub"]:
                tt = ticks(t)
                sent_at.add(tt)
                if kind != "GroupValueWrite" or dest != GA or value != int(bool(case.get("invert"))):
                    ctx.fail("C42:reset-telegram-content:switch", inp, f"unexpected telegram on the bus: {kind} {value} to {dest} at t={tt}/64 s")
                elif tt not in allowed:
                    ctx.fail("C42:reset-telegram-time:switch", inp, f"reset telegram at t={tt}/64 s; allowed instants {sorted(allowed)}")
            for D in sorted(required - ties):
                if D not in sent_at:
                    ctx.fail("C42:reset-telegram-missing:switch", inp, f"no reset telegram at t={D}/64 s; sent at {sorted(sent_at)}")
            red = len([D for D in sent_at if D in allowed and D not in required and D not in ties])
            if red:
                ctx.notes["redundant_reset_after_off"] = ctx.notes.get("redundant_reset_after_off", 0) + red
        elif obs["stub"]:
            ctx.fail(f"C42:unexpected-telegram:{dev}", inp, f"binary sensor sent {obs['stub'][:3]}")
    # ---- counters ------------------------------------------------------------
    if has_ctx:
        weak = dev == "bs_both"
        acb = bool(case.get("acb"))
        # a GroupValueResponse is a state report: it neither counts nor extends the context window
        wevents = [e for e in events if e[2]]
        resp_at: dict = {}
        for e in events:
            if not e[2]:
                resp_at.setdefault(e[0], []).append(e[1])
        if not weak:
            bl = bursts(wevents, T)
            closes = {}
            for j, b in enumerate(bl):
                C = b[-1][0] + T
                tie = j + 1 < len(bl) and bl[j + 1][0][0] == C
                pure = len({e[1] for e in b}) == 1
                closes[C] = (b, tie, pure)
            by_time: dict = {}
            for t, state, counter in obs["cb"]:
                by_time.setdefault(ticks(t), []).append((state, counter))
            for tt, entries in sorted(by_time.items(), key=lambda kv: float(kv[0])):
                if tt not in closes and acb and tt in resp_at:
                    # always_callback: a state report repeating the state calls the callback right away (not judged beyond its state)
                    if len(entries) > len(resp_at[tt]) or any(e[0] not in resp_at[tt] for e in entries):
                        ctx.fail("C42:response-callback", inp, f"callbacks at t={tt}/64 s {entries} for GroupValueResponse telegrams with states {resp_at[tt]}")
                    continue
                if tt not in closes:
                    ctx.fail("C42:counter-report-time", inp, f"device callback at t={tt}/64 s {entries}; contexts close at {sorted(closes)}")
                    continue
                b, tie, pure = closes[tt]
                s_last = b[-1][1]
                if len(entries) != 2 or entries[0][0] != s_last or entries[1] != (s_last, 0):
                    ctx.fail("C42:counter-report-shape", inp, f"context closing at t={tt}/64 s reported {entries}; expected (state {s_last}, counter) then (state {s_last}, 0)")
                elif pure and entries[0][1] != len(b):
                    ctx.fail("C42:counter-value", inp, f"run of {len(b)} '{'on' if s_last else 'off'}' telegrams at {[e[0] for e in b]} (timeout {T}/64 s) closed at t={tt}/64 s with counter {entries[0][1]}")
            for C, (b, tie, pure) in sorted(closes.items()):
                if C not in by_time and tie:
                    ctx.notes["context_report_preempted_at_exact_tie"] = ctx.notes.get("context_report_preempted_at_exact_tie", 0) + 1
                if C not in by_time and not tie:
                    ctx.fail("C42:counter-report-missing", inp, f"context of telegrams at {[e[0] for e in b]} never reported (expected at t={C}/64 s); callbacks at {sorted(by_time, key=float)}")
            # counter attribute at settled samples
            for idx, t, state, counter in obs["samples"]:
                tt = ticks(t)
                seen = [e for e in wevents if e[3] <= idx]
                if not seen:
                    exp = 0
                else:
                    b = bursts(seen, T)[-1]
                    if tt >= b[-1][0] + T:
                        exp = 0
                    elif len({e[1] for e in b}) == 1:
                        exp = len(b)
                    else:
                        continue
                if counter != exp:
                    ctx.fail("C42:counter-attr", inp, f"after step {idx} at t={tt}/64 s counter={counter}, reference {exp}")
                    break
        else:
            if obs["samples"] and obs["samples"][-1][3] != 0:
                ctx.fail("C42:counter-not-reset:bs_both", inp, f"counter {obs['samples'][-1][3]} after all contexts closed")
            # every report pair: second entry carries counter 0
            by_time = {}
            for t, state, counter in obs["cb"]:
                by_time.setdefault(ticks(t), []).append((state, counter))
            for tt, entries in by_time.items():
                if acb:
                    break  # always_callback: state reports and resets that repeat the state call back singly; not judged
                if len(entries) % 2 or any(e[1] != 0 for e in entries[1::2]):
                    ctx.fail("C42:counter-report-shape:bs_both", inp, f"callbacks at t={tt}/64 s: {entries}")


def classify(case):
    events = _events(case)
    ths = [x for x in (case.get("R"), case.get("T")) if x]
    gaps = [b[0] - a[0] for a, b in zip(events, events[1:])]
    cls = [case["dev"], case["mode"]]
    if case["dev"] != "switch" and any(stp[2] in ("ron", "roff") for stp in case["steps"]):
        cls.append("bs-response-telegram")
        if case["dev"] in ("bs_ctx", "bs_both"):
            cls.append("ctx-sensor-response")
    if case.get("acb"):
        cls.append("always_callback")
    if case.get("addrs") == "multi":
        cls.append("multi-address")
        if any(len(stp) > 4 and stp[4] for stp in case["steps"]):
            cls.append("telegram-on-state/passive-address")
    nontrivial = False
    for g in gaps:
        for th in ths:
            if g == th:
                cls.append("gap=thr")
            elif abs(g - th) == 1:
                cls.append("gap=thr±1/64")
            if g <= th + 1:
                nontrivial = True
    if case.get("T") and case["dev"] == "bs_ctx":
        for b in bursts([e for e in events if e[2]], case["T"]):
            if len(b) >= 2:
                cls.append("pure-burst>=2" if len({e[1] for e in b}) == 1 else "mixed-burst")
    return nontrivial, sorted(set(cls))


def check_case(ctx, case) -> None:
    if not in_domain(case):
        ctx.notes["skipped_out_of_domain_response"] = ctx.notes.get("skipped_out_of_domain_response", 0) + 1
        return
    try:
        obs = execute(case)
    except (BudgetExceeded, Deadlock):
        ctx.notes["inconclusive"] = ctx.notes.get("inconclusive", 0) + 1
        return
    except HarnessError:
        raise
    except Exception as e:  # noqa: BLE001
        ctx.fail(f"C42:scenario-exc:{exc_site(e)}", case, repr(e))
        return
    judge(ctx, case, obs)


# --------------------------------------------------------------------------- generation


def _config(dev, th, th2, invert, iis, mode):
    c = {"dev": dev, "invert": invert, "iis": iis, "mode": mode}
    if dev in ("switch", "bs_reset", "bs_both"):
        c["R"] = th
    if dev in ("bs_ctx", "bs_both"):
        c["T"] = th2 if dev == "bs_both" else th
    return c


def _gapset(th):
    return [0, th // 2, th - 1, th, th + 1, 2 * th]


def _enum_shard(ctx, dev, mode, Lmax, addrs="single") -> None:
    th = 64
    cfg = _config(dev, th, 32, False, False, mode)
    gaps = _gapset(th)
    kinds = [("on", 0), ("off", 0)]
    if addrs in ("resp", "resp_acb"):
        # writes and responses mixed (BinarySensor); resp_acb: with always_callback=True
        kinds = [("on", 0), ("off", 0), ("ron", 0), ("roff", 0)]
        if addrs == "resp_acb":
            cfg["acb"] = True
    if addrs == "multi":
        # 'on' on the command / state / a passive address, 'off' on the state address
        cfg["addrs"] = "multi"
        kinds = [("on", 0), ("on", 1), ("on", 3 if dev == "switch" else 1), ("off", 1)]
    # settle flags: the bus mode settles after every step (deadline served before a tie),
    # the direct mode never settles between steps (telegram served before a tie)
    s = mode == "bus"
    for L in range(1, Lmax + 1):
        n = nt = 0
        for gs in itertools.product(gaps, repeat=L - 1):
            for ks in itertools.product(kinds, repeat=L):
                case = dict(cfg, steps=[[g, s, k, s, ai] for g, (k, ai) in zip((0, *gs), ks)])
                if not in_domain(case):
                    ctx.notes["skipped_out_of_domain_response"] = ctx.notes.get("skipped_out_of_domain_response", 0) + 1
                    continue
                check_case(ctx, case)
                n += 1
                if classify(case)[0]:
                    nt += 1
                if n % 197 == 1:
                    ctx.sample(case)
        ctx.bulk(n, nt, f"enum-{dev}-{mode}-{addrs}-L{L}")


@st.composite
def cases(draw):
    dev = draw(st.sampled_from(DEVS + ["switch", "bs_ctx"]))
    th = draw(st.sampled_from(THRESHOLDS))
    th2 = draw(st.sampled_from(THRESHOLDS))
    cfg = _config(dev, th, th2, draw(st.booleans()), draw(st.booleans()), draw(st.sampled_from(["bus", "direct"])))
    ths = sorted({x for x in (cfg.get("R"), cfg.get("T")) if x})
    gapvals = sorted({g for t in ths for g in _gapset(t)} | {1, 2})
    kinds = ["on", "on", "off", "ron", "ron", "roff"] if dev in ("switch", "bs_reset") else ["on", "off"]
    if dev == "bs_ctx" and draw(st.booleans()):
        kinds = [draw(st.sampled_from(["on", "off"]))]  # pure runs
    if dev in ("bs_ctx", "bs_both") and draw(st.booleans()):
        # state reports in between (only those repeating the current state stay in the judged domain)
        kinds = kinds + ["r" + k for k in kinds]
    if dev != "switch":
        cfg["acb"] = draw(st.booleans())
    n = draw(st.integers(1, 10))
    steps = []
    for i in range(n):
        gap = 0 if i == 0 else draw(st.sampled_from(gapvals))
        steps.append([gap, draw(st.booleans()), draw(st.sampled_from(kinds)), draw(st.booleans())])
    cfg["steps"] = steps
    if draw(st.booleans()):
        # several group addresses: telegrams arrive on the command, state or a passive address
        cfg["addrs"] = "multi"
        na = len(ADDRS["switch" if dev == "switch" else "bs"])
        for stp in steps:
            stp.append(draw(st.integers(0, na - 1)))
    return cfg


def _hyp_oracle(ctx, case) -> None:
    check_case(ctx, case)
    nt, cls = classify(case)
    ctx.case(repr(sorted(case.items())), nontrivial=nt, cls=cls, sample=case if len(case["steps"]) >= 5 else None)


def _hyp_shard(ctx, n: int) -> None:
    hyp_search(ctx, cases().filter(in_domain), _hyp_oracle, n, shrink_cap_s=5.0 if ctx.quick else 30.0)



def _procs(want: int = 8) -> int:
    """Pool size: scheduling only (shards and seeds are the same for every pool size).
    On a saturated machine the fork pool costs several times the sequential run."""
    try:
        load = os.getloadavg()[0]
    except OSError:
        load = 0.0
    return want if load < cpu_count() else 1

def run(ctx) -> None:
    Lmax = ctx.n(3, 4)
    jobs = [(dev, mode, Lmax) for dev in DEVS for mode in ("bus", "direct")]
    jobs += [("switch", mode, 3, "multi") for mode in ("bus", "direct")]
    jobs += [("bs_reset", mode, 3, "resp") for mode in ("bus", "direct")]
    jobs += [("bs_ctx", mode, 3, a) for mode in ("bus", "direct") for a in ("resp", "resp_acb")]
    jobs += [("bs_both", "bus", 3, "resp_acb"), ("bs_reset", "bus", 3, "resp_acb")]
    parallel(ctx, _enum_shard, jobs, procs=_procs())
    parallel(ctx, _hyp_shard, [(ctx.n(300, 4000),)] * 8, procs=_procs())
    ctx.notes["exhaustive_up_to_telegrams"] = Lmax
    ctx.exhaustive = False


def replay(ctx, case) -> None:
    check_case(ctx, case)
