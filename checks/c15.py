"""C15 - Data Secure frames decrypt to exactly what was sent.

A sender `DataSecure` secures a generated plain L_Data frame (authenticated encryption
through `outgoing_cemi`, authentication only through the same `_secure_data_cemi` path
with an auth-only SCF); `CEMIFrame.to_knx()` octets are handed to
`CEMIHandler.handle_raw_cemi` of a second, independent XKNX instance that holds the same
group key and knows the sender. Exactly one telegram must be delivered, carrying the
original APDU, marked `data_secure`.

Also provides the sender / receiver harness used by C16.
"""

from __future__ import annotations

from vk.core import exc_site
from vk.engine import hyp_search, parallel
from vk.ref import ccm, cemi_layout as L
from vk.strategies import cemi as S
from xknx import XKNX
from xknx.cemi import CEMIFrame, CEMILData, CEMIMessageCode
from xknx.cemi.flags import CEMIFlags, CEMIPriority
from xknx.dpt import DPTArray, DPTBinary
from xknx.secure.data_secure import DataSecure
from xknx.secure.data_secure_asdu import SecurityAlgorithmIdentifier, SecurityALService, SecurityControlField
from xknx.telegram import GroupAddress, IndividualAddress, Telegram, apci, tpci as T

PROPERTY = "C15"
LEVEL = "exploration"
TECHNIQUE = "property-based testing (Hypothesis): two-instance round trip through the public receive entry point, cross-checked by an independent CCM reference"
RULE = (
    "generated (16-octet group key, source 1..65535, group destination 1..65535, TPCI {T_Data_Group, T_Data_Tag_Group}, sequence "
    "number 1..2^48-1 biased to boundaries, receiver's last valid sequence number below it, algorithm {A+C, authentication only}, "
    "payload {GroupValueWrite/Response with 0..238 data octets, 6-bit value, one instance of every APCI service class}, priority, "
    "repeat, ack, hop count); plus every plain APDU length 2..240 x both algorithms enumerated once. Every frame is additionally "
    "sent through the real send path (a sender XKNX with current_address = the sender, CEMIHandler.send_telegram, recording "
    "interface stub that confirms with L_Data.con; telegram once with the default 0.0.0 source and once with an explicit source; "
    "always A+C, the only algorithm the send path selects) and the recorded frame is given to a fresh receiver; and it is "
    "(receiver re-initialisation: cemi_handler.data_secure_init(keyring) 2..4 times on one receiver with keyrings whose sender / group "
    "key sets are superset, subset, disjoint, equal, sender-only superset or carry a replaced key, with and without traffic in between; "
    "afterwards fresh frames from every sender to every group under every key: delivered iff sender and key belong to the LAST "
    "keyring, same verdicts as a receiver initialised once; enumerated incl. genuine Keyring objects, and generated) "
    "(send histories: one sender, one receiver, 2..4 telegrams to two secured groups through send_telegram with an interface that "
    "per send delivers and returns / delivers and then raises CommunicationError / raises without delivering, and an L_Data.con that "
    "may be lost - all fault sequences of length 2..3 enumerated, longer ones generated: every secured frame that reached the receiver "
    "must be delivered, wire sequence numbers strictly increase) and it is "
    "replayed as a short history on ONE receiver: two bit-damaged copies and a copy forged with another key under a higher sequence "
    "number first (all must be discarded), then the intact frame (must be delivered once, unchanged). Every case is non-trivial "
    "(distinct by input); frames whose secured NPDU exceeds 254 octets are outside the domain."
)
ASSUMPTIONS = [
    "re-initialisation histories: generated keyrings are objects offering exactly what DataSecure.init_from_keyring reads "
    "(get_data_secure_group_keys / get_data_secure_senders); the enumerated relations are repeated with genuine Keyring objects loaded from "
    "files written by vk/ref/keyring_writer.py. Frames judged after the last initialisation carry sequence numbers above every keyring entry "
    "and everything sent before, so whether learnt sequence numbers survive a re-initialisation is not judged",
    "send histories: xknx.cemi.cemi_handler.REQUEST_TO_CONFIRMATION_TIMEOUT is lowered to 2 ms while a history runs (restored afterwards) so that "
    "a lost L_Data.con does not cost 3 s of wall clock; an exception out of the interface's send_cemi does not imply the frame stayed off the bus "
    "(a tunnel raises CommunicationError after unacknowledged retries although the gateway may have forwarded the frame)",
    "sender side = xknx.secure.data_secure.DataSecure (outgoing_cemi; _secure_data_cemi with an authentication-only SCF, as no public "
    "API selects that algorithm); receiver side = a separate XKNX() whose cemi_handler.data_secure holds the key and the sender",
    "delivery is observed at xknx.telegrams (T_Data_Group) and at the management entry point xknx.management.process (T_Data_Tag_Group, "
    "which CEMIHandler.telegram_received routes there); xknx.management is replaced by a recorder",
    "for T_Data_Group frames (TPCI 0) the secured octets are additionally compared with vk/ref/ccm.py and the reference must decrypt them",
]
LEVEL_TEXT = "no generated (key, addresses, TPCI, sequence number, APDU, algorithm) makes the receiver drop, alter or mis-flag a frame secured by the sender"
LEVEL_NOTE = "sampling with every APDU length enumerated; sender and receiver are the same code base (symmetric errors are C19's business)"


class ManagementRecorder:
    def __init__(self) -> None:
        self.telegrams: list = []

    def process(self, telegram) -> None:
        self.telegrams.append(telegram)


def make_payload(p):
    kind, arg = p[0], p[1]
    if kind in ("gvw", "gvr"):
        cls = apci.GroupValueWrite if kind == "gvw" else apci.GroupValueResponse
        data = bytes(arg)
        return cls(DPTArray(tuple(data))) if data else cls(DPTBinary(0))
    if kind == "gvw6":
        return apci.GroupValueWrite(DPTBinary(bytes(arg)[0] & 0x3F))
    if kind == "svc":
        lst = S.service_instances()
        return lst[int(arg) % len(lst)]
    raise ValueError(kind)


def norm(spec) -> dict:
    spec = dict(spec)
    spec["payload"] = tuple(spec["payload"])
    return spec


def secure_frame(spec):
    """Sender side. Returns (raw cEMI octets, plain CEMILData, plain APDU octets)."""
    key = bytes(spec["key"])
    dst = GroupAddress(spec["dst"])
    src = IndividualAddress(spec["src"])
    tp = T.TDataGroup() if spec["tpci"] == "TDataGroup" else T.TDataTagGroup()
    payload = make_payload(spec["payload"])
    plain = CEMILData(
        flags=CEMIFlags(priority=CEMIPriority(spec["priority"]), repeat_on_error=spec["repeat"], acknowledge_request=spec["ack"], hop_count=spec["hop"]),
        src_addr=src,
        dst_addr=dst,
        tpci=tp,
        payload=payload,
    )
    sender = DataSecure(group_key_table={dst: key}, individual_address_table={}, last_sequence_number_sending=spec["seq"])
    if spec["alg"] == "enc":
        secured = sender.outgoing_cemi(plain)
    else:
        scf = SecurityControlField(
            tool_access=False, algorithm=SecurityAlgorithmIdentifier.CCM_AUTHENTICATION, system_broadcast=False, service=SecurityALService.S_A_DATA
        )
        secured = sender._secure_data_cemi(key=key, scf=scf, cemi_data=plain)  # noqa: SLF001
    raw = CEMIFrame(code=CEMIMessageCode(spec.get("code", 0x29)), data=secured).to_knx()
    return raw, plain, bytes(payload.to_knx())


def make_receiver(spec, key: bytes | None = None, last_valid: int | None = None):
    xknx = XKNX()
    rec = ManagementRecorder()
    xknx.management = rec
    if last_valid is None:
        last_valid = max(0, spec["seq"] - spec.get("gap", 1))
    xknx.cemi_handler.data_secure = DataSecure(
        group_key_table={GroupAddress(spec["dst"]): bytes(spec["key"]) if key is None else key},
        individual_address_table={IndividualAddress(spec["src"]): last_valid},
        last_sequence_number_sending=1,
    )
    return xknx, rec


def delivered(xknx, rec) -> list:
    out = []
    while xknx.telegrams.qsize():
        out.append(xknx.telegrams.get_nowait())
    return out + list(rec.telegrams)


def plain_len(spec) -> int:
    p = spec["payload"]
    if p[0] in ("gvw", "gvr"):
        return 2 + len(bytes(p[1]))
    if p[0] == "gvw6":
        return 2
    return len(bytes(make_payload(p).to_knx()))


def oracle(ctx, spec) -> None:
    spec = norm(spec)
    n = plain_len(spec)
    ctx.case(
        repr(sorted(spec.items())),
        nontrivial=True,
        cls=(f"alg:{spec['alg']}", f"tpci:{spec['tpci']}", f"payload:{spec['payload'][0]}", f"apdu-len:{min(n // 32, 7) * 32}+"),
    )
    if n in (2, 3, 16, 240) or spec["seq"] in (1, S.SEQ_MAX):
        ctx.sample({k: (v.hex()[:24] if isinstance(v, bytes) else (v[0], len(v[1]) if isinstance(v[1], bytes) else v[1]) if k == "payload" else v) for k, v in spec.items()})
    try:
        raw, plain, apdu = secure_frame(spec)
    except Exception as e:  # noqa: BLE001
        ctx.fail(f"C15:sender-exc:{exc_site(e)}", spec, f"securing raised {type(e).__name__}: {e}")
        return
    # shape of what went on the wire (reference layout)
    try:
        d = L.decode_ldata(raw)
        L.classify_secure_bits(raw)
    except (L.RefError, AssertionError) as e:
        ctx.fail("C15:wire:not-a-secure-frame", spec, f"{raw.hex()}: {e}")
        return
    scf_octet = d["apdu"][2]
    want_scf = 0x10 if spec["alg"] == "enc" else 0x00
    if scf_octet != want_scf or d["src"] != spec["src"] or d["dst"] != spec["dst"] or not d["group"]:
        ctx.fail("C15:wire:header-or-scf", spec, f"{raw.hex()}")
    if int.from_bytes(d["apdu"][3:9], "big") != spec["seq"]:
        ctx.fail("C15:wire:sequence-number", spec, f"sent with {int.from_bytes(d['apdu'][3:9], 'big')}, expected {spec['seq']}")
    if d["tpci"] == 0:  # (TPCI != 0: known block-0 deviation, see C19)
        kw = dict(scf=scf_octet, src=d["src"], dst=d["dst"], group=True, eff=d["eff"], tpci=0)
        if ccm.unsecure(bytes(spec["key"]), asdu_raw=d["apdu"][3:], **kw) != apdu:
            ctx.fail(f"C15:wire:reference-cannot-verify:{spec['alg']}", spec, f"independent CCM does not accept {raw.hex()}")
    # receiver
    xknx, rec = make_receiver(spec)
    try:
        xknx.cemi_handler.handle_raw_cemi(raw)
    except Exception as e:  # noqa: BLE001
        ctx.fail(f"C15:receiver-exc:{exc_site(e)}", spec, f"handle_raw_cemi raised {type(e).__name__}: {e}")
        return
    got = delivered(xknx, rec)
    if len(got) != 1:
        ctx.fail(
            f"C15:not-delivered:{spec['alg']}:{spec['tpci']}" if not got else "C15:delivered-more-than-once",
            spec,
            f"{len(got)} telegrams delivered for {raw.hex()}; undecoded_data_secure={xknx.connection_manager.undecoded_data_secure} "
            f"incoming_error={xknx.connection_manager.cemi_count_incoming_error}",
        )
        return
    tg = got[0]
    if tg.payload != plain.payload or type(tg.payload) is not type(plain.payload) or bytes(tg.payload.to_knx()) != apdu:
        ctx.fail(f"C15:payload-differs:{type(plain.payload).__name__}", spec, f"sent {plain.payload} received {tg.payload}")
    if tg.data_secure is not True:
        ctx.fail("C15:data-secure-flag", spec, f"telegram.data_secure is {tg.data_secure!r}")
    if tg.destination_address != plain.dst_addr or tg.source_address != plain.src_addr or tg.tpci != plain.tpci or type(tg.tpci) is not type(plain.tpci):
        ctx.fail("C15:addresses-or-tpci-differ", spec, f"{tg}")
    if xknx.connection_manager.undecoded_data_secure != 0:
        ctx.fail("C15:counted-undecoded", spec, "delivered but undecoded_data_secure was incremented")
    history_after_damaged_copies(ctx, spec, raw, plain, apdu)
    send_path(ctx, spec, plain, apdu)


class RecordingInterface:
    """Stands in for the tunnel / routing object below KNXIPInterface: records the frame and confirms it."""

    def __init__(self, xknx) -> None:
        self.xknx = xknx
        self.sent: list = []

    async def send_cemi(self, cemi) -> None:
        self.sent.append(cemi)
        raw = cemi.to_knx()
        self.xknx.cemi_handler.handle_raw_cemi(bytes([CEMIMessageCode.L_DATA_CON.value]) + raw[1:])


_LOOP: dict = {}


def _loop():
    """One event loop per process (fork-safe), closed at exit."""
    import asyncio
    import atexit
    import os

    pid = os.getpid()
    if pid not in _LOOP:
        _LOOP.clear()
        lp = asyncio.new_event_loop()
        _LOOP[pid] = lp
        atexit.register(lambda: lp.is_closed() or lp.close())
    return _LOOP[pid]


def send_path(ctx, spec, plain, apdu: bytes) -> None:
    """The real send path: Telegram -> sender XKNX.cemi_handler.send_telegram (Data Secure, source address
    substitution, L_Data.req to the interface, L_Data.con back) -> recorded frame -> receiver.handle_raw_cemi.
    Telegrams are created with the DEFAULT source address (as devices / user code do) and with an explicit one."""
    import asyncio

    sender_addr = IndividualAddress(spec["src"])
    for variant in ("default-source", "explicit-source"):
        sx = XKNX()
        sx.current_address = sender_addr
        sx.cemi_handler.data_secure = DataSecure(
            group_key_table={GroupAddress(spec["dst"]): bytes(spec["key"])}, individual_address_table={}, last_sequence_number_sending=spec["seq"]
        )
        stub = RecordingInterface(sx)
        sx.knxip_interface._interface = stub  # noqa: SLF001
        kw = {} if variant == "default-source" else {"source_address": IndividualAddress(spec["src"])}
        tg = Telegram(destination_address=GroupAddress(spec["dst"]), payload=plain.payload, tpci=type(plain.tpci)(), **kw)
        ctx.classes[f"send-path:{variant}"] += 1
        try:
            _loop().run_until_complete(asyncio.wait_for(sx.cemi_handler.send_telegram(tg), 30))
        except Exception as e:  # noqa: BLE001
            ctx.fail(f"C15:send-path:sender-exc:{exc_site(e)}", spec, f"send_telegram ({variant}) raised {type(e).__name__}: {e}")
            continue
        if len(stub.sent) != 1 or tg.data_secure is not True:
            ctx.fail(f"C15:send-path:not-sent-secured:{variant}", spec, f"{len(stub.sent)} frames handed to the interface, telegram.data_secure={tg.data_secure!r}")
            continue
        wire = stub.sent[0].to_knx()
        try:
            d = L.decode_ldata(wire)
            L.classify_secure_bits(wire)
        except (L.RefError, AssertionError) as e:
            ctx.fail(f"C15:send-path:wire-not-a-secure-frame:{variant}", spec, f"{wire.hex()}: {e}")
            continue
        if d["code"] != L.L_DATA_REQ or d["src"] != spec["src"] or d["dst"] != spec["dst"] or int.from_bytes(d["apdu"][3:9], "big") != spec["seq"]:
            ctx.fail(f"C15:send-path:wire-header:{variant}", spec, f"{wire.hex()} (expected L_Data.req from {spec['src']:#06x} to {spec['dst']:#06x} seq {spec['seq']})")
        if d["tpci"] == 0 and ccm.unsecure(bytes(spec["key"]), scf=d["apdu"][2], src=d["src"], dst=d["dst"], group=True, eff=d["eff"], tpci=0, asdu_raw=d["apdu"][3:]) != apdu:
            ctx.fail(
                f"C15:send-path:reference-cannot-verify:{variant}",
                spec,
                f"independent CCM (source address as on the wire {d['src']:#06x}) does not accept {wire.hex()}",
            )
        # what a gateway makes of it on the bus side: the same frame as L_Data.ind
        xknx, rec = make_receiver(spec)
        try:
            xknx.cemi_handler.handle_raw_cemi(bytes([L.L_DATA_IND]) + wire[1:])
        except Exception as e:  # noqa: BLE001
            ctx.fail(f"C15:receiver-exc:{exc_site(e)}", spec, f"handle_raw_cemi raised {type(e).__name__}: {e} (send path, {variant})")
            continue
        got = delivered(xknx, rec)
        if len(got) != 1:
            ctx.fail(
                f"C15:send-path:not-delivered:{variant}" if not got else "C15:delivered-more-than-once",
                spec,
                f"{len(got)} telegrams delivered for the frame send_telegram produced ({variant}, sender current_address {sender_addr}): {wire.hex()}; "
                f"undecoded_data_secure={xknx.connection_manager.undecoded_data_secure}",
            )
            continue
        t = got[0]
        if t.payload != plain.payload or bytes(t.payload.to_knx()) != apdu or t.data_secure is not True or t.source_address != sender_addr or t.destination_address != plain.dst_addr:
            ctx.fail(f"C15:send-path:telegram-differs:{variant}", spec, f"sent {plain.payload} from {sender_addr}; received {t} data_secure={t.data_secure}")


def history_after_damaged_copies(ctx, spec, raw: bytes, plain, apdu: bytes) -> None:
    """The SAME receiver first sees copies of the frame that cannot be authentic (one flipped bit in the secured
    APDU / MAC; a frame forged with another key under a HIGHER sequence number), then the intact frame: the intact
    frame - never seen before by this receiver, from a known sender, right key - must still be accepted exactly once."""
    xknx, rec = make_receiver(spec)
    b = 2 + raw[1]
    n_sec_bits = 8 * (len(raw) - (b + 16))  # secured APDU + MAC
    pick = (spec["seq"] * 2654435761 + len(raw)) % n_sec_bits
    damaged = [("bit-in-sapdu-or-mac", L.flip_bit(raw, 8 * (b + 16) + pick)), ("bit-in-last-mac-octet", L.flip_bit(raw, 8 * len(raw) - 1 - spec["seq"] % 8))]
    if spec["seq"] < S.SEQ_MAX:
        wrong_key = bytes(x ^ 0x5A for x in bytes(spec["key"]))
        higher = min(S.SEQ_MAX, spec["seq"] + 1 + spec["seq"] % 1000)
        try:
            damaged.append(("forged-higher-seq-wrong-key", secure_frame({**spec, "key": wrong_key, "seq": higher})[0]))
        except Exception:  # noqa: BLE001 - sender problems are reported by the main oracle
            pass
    ctx.classes["history:damaged-then-intact"] += 1
    for what, bad in damaged:
        try:
            xknx.cemi_handler.handle_raw_cemi(bad)
        except Exception as e:  # noqa: BLE001
            ctx.fail(f"C15:receiver-exc:{exc_site(e)}", spec, f"handle_raw_cemi raised {type(e).__name__}: {e} on a damaged copy ({what})")
            return
        got = delivered(xknx, rec)
        if got:
            ctx.fail(f"C15:damaged-copy-delivered:{what}", spec, f"{what}: {bad.hex()} delivered {got[0]} (tampering is C16's subject; reported here because it was observed)")
            return
    try:
        xknx.cemi_handler.handle_raw_cemi(raw)
    except Exception as e:  # noqa: BLE001
        ctx.fail(f"C15:receiver-exc:{exc_site(e)}", spec, f"handle_raw_cemi raised {type(e).__name__}: {e} on the intact frame after damaged copies")
        return
    got = delivered(xknx, rec)
    if len(got) != 1:
        ctx.fail(
            f"C15:not-delivered-after-damaged-copy:{spec['alg']}" if not got else "C15:delivered-more-than-once",
            spec,
            f"{len(got)} telegrams delivered for the intact frame {raw.hex()} after {[w for w, _ in damaged]} had been discarded by the same receiver "
            f"(receiver's last valid sequence number of the sender is now "
            f"{xknx.cemi_handler.data_secure._individual_address_table.get(IndividualAddress(spec['src']))}, frame has {spec['seq']})",  # noqa: SLF001
        )
        return
    tg = got[0]
    if tg.payload != plain.payload or bytes(tg.payload.to_knx()) != apdu or tg.data_secure is not True:
        ctx.fail(f"C15:payload-differs-after-damaged-copy:{type(plain.payload).__name__}", spec, f"sent {plain.payload} received {tg.payload} data_secure={tg.data_secure}")


# ---------------------------------------------------------------------------
# send histories with interface faults

FAULTS = ("ok", "deliver-then-raise", "raise-no-deliver")


class FaultyInterface:
    """Interface stub between a sender and a receiver XKNX. Per send: hands the frame to the receiver (as L_Data.ind)
    or not, raises CommunicationError afterwards or not (a tunnel whose TUNNELLING_ACKs are lost raises although the
    frame reached the bus), confirms with L_Data.con or not."""

    def __init__(self, sender, receiver, rec) -> None:
        self.sender, self.receiver, self.rec = sender, receiver, rec
        self.plan: dict = {}
        self.log: list = []  # per send: {"wire", "reached", "delivered", "rx_exc"}

    async def send_cemi(self, cemi) -> None:
        from xknx.exceptions import CommunicationError

        wire = cemi.to_knx()
        entry = {"wire": wire, "reached": False, "delivered": [], "rx_exc": None}
        self.log.append(entry)
        fault = self.plan["fault"]
        if fault in ("ok", "deliver-then-raise"):
            entry["reached"] = True
            try:
                self.receiver.cemi_handler.handle_raw_cemi(bytes([L.L_DATA_IND]) + wire[1:])
            except Exception as e:  # noqa: BLE001
                entry["rx_exc"] = e
            entry["delivered"] = delivered(self.receiver, self.rec)
            del self.rec.telegrams[:]
        if fault != "ok":
            raise CommunicationError("simulated: no acknowledge from the gateway")
        if self.plan["confirm"]:
            self.sender.cemi_handler.handle_raw_cemi(bytes([CEMIMessageCode.L_DATA_CON.value]) + wire[1:])


def oracle_send_history(ctx, hist) -> None:
    """2..4 telegrams to secured groups through CEMIHandler.send_telegram of ONE sender, a faulty interface and ONE
    receiver. Every secured frame that reached the receiver must be delivered there unchanged; the sequence numbers of
    the frames that went out are strictly increasing (else the receiver must reject the later one as a replay)."""
    import asyncio

    from xknx.cemi import cemi_handler as CH
    from xknx.exceptions import CommunicationError, ConfirmationError

    hist = dict(hist)
    steps = [dict(st_, payload=tuple(st_["payload"])) for st_ in hist["steps"]]
    keys = [bytes(k) for k in hist["keys"]]
    gas = [0x0A01, 0x0A02]
    src = IndividualAddress(hist["src"])
    faults = [st_["fault"] for st_ in steps]
    lost_con = any(st_["fault"] == "ok" and not st_["confirm"] for st_ in steps)
    ctx.case(
        repr((hist["src"], hist["seq"], [sorted(st_.items()) for st_ in steps], keys)),
        nontrivial=any(f != "ok" for f in faults) or lost_con,
        cls=["send-history", f"send-history:len{len(steps)}"] + [f"send-history:fault:{f}" for f in set(faults)] + (["send-history:lost-confirmation"] if lost_con else []),
    )
    if faults.count("deliver-then-raise") and len(steps) == 2:
        ctx.sample({"send_history": [(st_["fault"], st_["confirm"], st_["ga"]) for st_ in steps], "seq": hist["seq"]})
    table = {GroupAddress(g): k for g, k in zip(gas, keys)}
    sx = XKNX()
    sx.current_address = src
    sx.cemi_handler.data_secure = DataSecure(group_key_table=dict(table), individual_address_table={}, last_sequence_number_sending=hist["seq"])
    rx = XKNX()
    rec = ManagementRecorder()
    rx.management = rec
    rx.cemi_handler.data_secure = DataSecure(group_key_table=dict(table), individual_address_table={src: hist["seq"] - 1}, last_sequence_number_sending=1)
    stub = FaultyInterface(sx, rx, rec)
    sx.knxip_interface._interface = stub  # noqa: SLF001
    saved = CH.REQUEST_TO_CONFIRMATION_TIMEOUT
    CH.REQUEST_TO_CONFIRMATION_TIMEOUT = 0.002  # a lost L_Data.con must not cost 3 s of wall clock per case
    last_wire_seq = None
    prev = "start"
    try:
        for i, st_ in enumerate(steps):
            payload = make_payload(st_["payload"])
            tg = Telegram(destination_address=GroupAddress(gas[st_["ga"]]), payload=payload)
            stub.plan = st_
            n_before = len(stub.log)
            try:
                _loop().run_until_complete(asyncio.wait_for(sx.cemi_handler.send_telegram(tg), 30))
                outcome = "returned"
            except ConfirmationError:  # (a subclass of CommunicationError)
                outcome = "ConfirmationError"
            except CommunicationError:
                outcome = "CommunicationError"
            except Exception as e:  # noqa: BLE001
                ctx.fail(f"C15:send-history:sender-exc:{exc_site(e)}", hist, f"step {i} ({st_['fault']}): send_telegram raised {type(e).__name__}: {e}")
                return
            expected_outcome = "returned" if st_["fault"] == "ok" and st_["confirm"] else ("ConfirmationError" if st_["fault"] == "ok" else "CommunicationError")
            if outcome != expected_outcome:
                ctx.fail(f"C15:send-history:unexpected-outcome:{st_['fault']}", hist, f"step {i}: send_telegram {outcome}, expected {expected_outcome}")
            if len(stub.log) != n_before + 1:
                ctx.fail("C15:send-history:frames-per-telegram", hist, f"step {i}: {len(stub.log) - n_before} frames handed to the interface")
                return
            e = stub.log[-1]
            try:
                d = L.decode_ldata(e["wire"])
                L.classify_secure_bits(e["wire"])
            except (L.RefError, AssertionError) as err:
                ctx.fail("C15:send-history:wire-not-a-secure-frame", hist, f"step {i}: {e['wire'].hex()}: {err}")
                return
            wire_seq = int.from_bytes(d["apdu"][3:9], "big")
            # only frames that really went out count: a number whose frame never left may be reused
            if e["reached"] and last_wire_seq is not None and wire_seq <= last_wire_seq:
                ctx.fail(
                    f"C15:send-history:sequence-number-not-increasing:after-{prev}",
                    hist,
                    f"step {i}: frame went out with sequence number {wire_seq} although {last_wire_seq} had already gone out on the wire "
                    f"(previous send: {prev}); history {[(x['fault'], x['confirm']) for x in steps]}",
                )
            if e["reached"]:
                last_wire_seq = wire_seq if last_wire_seq is None else max(last_wire_seq, wire_seq)
            if e["reached"]:
                if e["rx_exc"] is not None:
                    ctx.fail(f"C15:receiver-exc:{exc_site(e['rx_exc'])}", hist, f"step {i}: handle_raw_cemi raised {e['rx_exc']!r}")
                elif len(e["delivered"]) != 1:
                    ctx.fail(
                        f"C15:send-history:not-delivered:after-{prev}" if not e["delivered"] else "C15:delivered-more-than-once",
                        hist,
                        f"step {i} ({st_['fault']}): intact secured frame {e['wire'].hex()} (sequence number {wire_seq}) reached the receiver, "
                        f"{len(e['delivered'])} telegrams delivered; previous send: {prev}; receiver undecoded_data_secure="
                        f"{rx.connection_manager.undecoded_data_secure}; history {[(x['fault'], x['confirm']) for x in steps]}",
                    )
                else:
                    t = e["delivered"][0]
                    if t.payload != payload or t.data_secure is not True or t.source_address != src or t.destination_address != GroupAddress(gas[st_["ga"]]):
                        ctx.fail("C15:send-history:telegram-differs", hist, f"step {i}: sent {payload} received {t} data_secure={t.data_secure}")
            prev = st_["fault"] if st_["fault"] != "ok" or st_["confirm"] else "ok-without-confirmation"
    finally:
        CH.REQUEST_TO_CONFIRMATION_TIMEOUT = saved


def send_histories():
    from hypothesis import strategies as st

    step = st.fixed_dictionaries(
        {
            "ga": st.integers(0, 1),
            "payload": st.one_of(
                st.tuples(st.just("gvw"), st.binary(max_size=6)),
                st.tuples(st.just("gvr"), st.binary(max_size=3)),
                st.tuples(st.just("gvw6"), st.integers(0, 63).map(lambda v: bytes([v]))),
            ),
            "fault": st.sampled_from(FAULTS + ("ok",)),
            "confirm": st.sampled_from((True, True, True, False)),
        }
    )
    return st.fixed_dictionaries(
        {
            "src": st.integers(1, 0xFFFF),
            "seq": st.one_of(st.sampled_from((1, 2, 1 << 32, S.SEQ_MAX - 4)), st.integers(1, S.SEQ_MAX - 4)),
            "keys": st.lists(st.binary(min_size=16, max_size=16), min_size=2, max_size=2),
            "steps": st.lists(step, min_size=2, max_size=4),
        }
    )


def enumerate_send_histories(ctx) -> None:
    """Every fault sequence of length 2 and 3 (confirmations arriving), and each with one lost confirmation."""
    import itertools

    n = 0
    for length in (2, 3):
        for faults in itertools.product(FAULTS, repeat=length):
            for lost in (None, 0):
                steps = [{"ga": (i + n) % 2, "payload": ("gvw", bytes([i + 1, n & 0xFF])), "fault": f, "confirm": lost != i} for i, f in enumerate(faults)]
                oracle_send_history(ctx, {"src": 0x1105, "seq": 1000 + 16 * n, "keys": [bytes(range(16)), bytes(range(16, 32))], "steps": steps})
                n += 1


# ---------------------------------------------------------------------------
# receiver re-initialised from several keyrings (interface restarts)


class TableKeyring:
    """What DataSecure.init_from_keyring reads from a keyring: the group key table and the sender table."""

    def __init__(self, k: dict) -> None:
        self.groups = {GroupAddress(int(g)): bytes(key) for g, key in k["groups"]}
        self.senders = {IndividualAddress(int(a)): int(seq) for a, seq in k["senders"]}

    def get_data_secure_group_keys(self, receiver=None):
        return dict(self.groups)

    def get_data_secure_senders(self):
        return dict(self.senders)


def real_keyring(k: dict):
    """The same tables as a genuine xknx Keyring: written as a *.knxkeys file by the independent writer
    (vk/ref/keyring_writer.py) and loaded with xknx.secure.keyring.sync_load_keyring."""
    import os
    import tempfile

    from vk.ref import keyring_writer as kw
    from xknx.secure.keyring import sync_load_keyring

    gas = [int(g) for g, _ in k["groups"]]
    senders = [int(a) for a, _ in k["senders"]]
    project = {
        "project": "c15-reinit",
        "created_by": "ETS 5.7.4 (Build 1093)",
        "created": "2024-01-02T03:04:05",
        "password": "pw",
        "interfaces": [{"ia": 0xFF01, "type": "USB", "groups": [(g, senders) for g in gas]}],
        "groups": [(int(g), bytes(key)) for g, key in k["groups"]],
        "devices": [{"ia": int(a), "seq": int(seq)} for a, seq in k["senders"]],
    }
    fd, path = tempfile.mkstemp(prefix="c15-", suffix=".knxkeys", dir="/tmp")
    try:
        with os.fdopen(fd, "wb") as f:
            f.write(kw.write(project))
        return sync_load_keyring(path, "pw")
    finally:
        os.unlink(path)


def oracle_reinit(ctx, hist) -> None:
    """cemi_handler.data_secure_init(keyring) two or three times on ONE receiver (what every interface restart does),
    optionally receiving frames in between; afterwards the receiver must know exactly the senders and group keys of the
    LAST keyring: a fresh frame (sequence number above everything seen and above every keyring entry) from a sender and
    to a group of the last keyring is delivered; frames from removed senders / to removed groups / under a replaced key
    are not - the same verdicts as a receiver initialised once from the last keyring."""
    hist = dict(hist)
    ks = [dict(k) for k in hist["keyrings"]]
    make = real_keyring if hist.get("real") else TableKeyring
    last = ks[-1]
    last_groups = {int(g): bytes(key) for g, key in last["groups"]}
    last_senders = {int(a): int(q) for a, q in last["senders"]}
    all_groups: dict[int, list[bytes]] = {}
    next_seq: dict[int, int] = {}
    for k in ks:
        for g, key in k["groups"]:
            all_groups.setdefault(int(g), [])
            if bytes(key) not in all_groups[int(g)]:
                all_groups[int(g)].append(bytes(key))
        for a, q in k["senders"]:
            next_seq[int(a)] = max(next_seq.get(int(a), 0), int(q))
    rel = hist.get("relation", "?")
    ctx.case(repr(hist), nontrivial=True, cls=("reinit", f"reinit:inits{len(ks)}", f"reinit:{rel}", "reinit:real-keyring" if hist.get("real") else "reinit:table-keyring"))
    if len(ks) == 2 and not hist.get("real"):
        ctx.sample({"reinit": rel, "keyrings": [{"groups": [g for g, _ in k["groups"]], "senders": list(map(list, k["senders"]))} for k in ks]})

    def frame(src: int, ga: int, key: bytes) -> bytes:
        next_seq[src] = next_seq[src] + 1 + (src + ga) % 5
        spec = {"key": key, "src": src, "dst": ga, "tpci": "TDataGroup", "seq": next_seq[src], "alg": "enc" if (src + ga) % 3 else "auth",
                "payload": ("gvw", bytes([src & 0xFF, ga & 0xFF])), "priority": 3, "repeat": False, "ack": False, "hop": 6, "code": 0x29}  # fmt: skip
        return secure_frame(spec)[0]

    def feed(xk, rec_, raw):
        try:
            xk.cemi_handler.handle_raw_cemi(raw)
        except Exception as e:  # noqa: BLE001
            return e
        return delivered(xk, rec_)

    rx = XKNX()
    rec = ManagementRecorder()
    rx.management = rec
    try:
        for i, k in enumerate(ks):
            rx.cemi_handler.data_secure_init(make(k))
            if i < len(ks) - 1 and hist.get("traffic_between", True):
                for a, _q in k["senders"]:  # the receiver learns sequence numbers before the restart
                    for g, key in k["groups"][:2]:
                        out = feed(rx, rec, frame(int(a), int(g), bytes(key)))
                        if isinstance(out, Exception):
                            ctx.fail(f"C15:receiver-exc:{exc_site(out)}", hist, f"handle_raw_cemi raised {out!r} between initialisations")
                            return
        fresh = XKNX()
        frec = ManagementRecorder()
        fresh.management = frec
        fresh.cemi_handler.data_secure_init(make(last))
    except Exception as e:  # noqa: BLE001
        ctx.fail(f"C15:reinit:init-exc:{exc_site(e)}", hist, f"data_secure_init raised {type(e).__name__}: {e}")
        return
    first_senders = {int(a) for a, _ in ks[0]["senders"]}
    first_groups = {int(g) for g, _ in ks[0]["groups"]}
    for src in sorted(next_seq):
        for ga in sorted(all_groups):
            for key in all_groups[ga]:
                raw = frame(src, ga, key)
                expect = src in last_senders and last_groups.get(ga) == key
                got = feed(rx, rec, raw)
                ref = feed(fresh, frec, raw)
                if isinstance(got, Exception):
                    ctx.fail(f"C15:receiver-exc:{exc_site(got)}", hist, f"handle_raw_cemi raised {got!r} after re-initialisation")
                    continue
                n = len(got)
                if expect and n != 1:
                    why = ("sender-new-in-last-keyring" if src not in first_senders else "sender-kept") + ":" + ("group-new-in-last-keyring" if ga not in first_groups else "group-kept")
                    ctx.fail(
                        f"C15:reinit:not-delivered:{why}",
                        hist,
                        f"after {len(ks)} initialisations ({rel}) a fresh frame from {IndividualAddress(src)} (listed in the last keyring, seq {next_seq[src]}) to "
                        f"{GroupAddress(ga)} (key of the last keyring) delivered {n} telegrams; senders the receiver knows: "
                        f"{sorted(str(a) for a in rx.cemi_handler.data_secure._individual_address_table)}; undecoded_data_secure={rx.connection_manager.undecoded_data_secure}",  # noqa: SLF001
                    )
                elif expect and (got[0].data_secure is not True or got[0].source_address != IndividualAddress(src)):
                    ctx.fail("C15:reinit:telegram-differs", hist, f"{got[0]} data_secure={got[0].data_secure}")
                elif not expect and n:
                    why = "sender-removed" if src not in last_senders else ("group-removed" if ga not in last_groups else "replaced-key")
                    ctx.fail(f"C15:reinit:delivered-unexpectedly:{why}", hist, f"frame from {IndividualAddress(src)} to {GroupAddress(ga)} delivered after re-initialisation ({rel}): {got[0]}")
                if not isinstance(ref, Exception) and len(ref) != n:
                    ctx.fail("C15:reinit:differs-from-fresh-receiver", hist, f"re-initialised receiver delivered {n}, receiver initialised once from the last keyring delivered {len(ref)} for frame from {IndividualAddress(src)} to {GroupAddress(ga)}")


def _keyring_pair(relation: str, base_senders, base_groups, extra_senders, extra_groups):
    k_small = {"senders": base_senders, "groups": base_groups}
    k_big = {"senders": base_senders + extra_senders, "groups": base_groups + extra_groups}
    k_other = {"senders": extra_senders, "groups": extra_groups}
    return {"superset": [k_small, k_big], "subset": [k_big, k_small], "disjoint": [k_small, k_other], "equal": [k_big, k_big]}[relation]


def reinit_histories():
    from hypothesis import strategies as st

    keys = st.binary(min_size=16, max_size=16)
    ias = st.lists(st.integers(1, 0xFFFF), min_size=2, max_size=4, unique=True)
    gas = st.lists(st.integers(1, 0xFFFF), min_size=2, max_size=4, unique=True)

    @st.composite
    def build(draw):
        a, g = draw(ias), draw(gas)
        seqs = [draw(st.one_of(st.just(0), st.integers(0, 1 << 40))) for _ in a]
        ks = [draw(keys) for _ in g]
        na, ng = draw(st.integers(1, len(a) - 1)), draw(st.integers(1, len(g) - 1))
        base_s, extra_s = [[x, q] for x, q in zip(a[:na], seqs[:na])], [[x, q] for x, q in zip(a[na:], seqs[na:])]
        base_g, extra_g = [[x, k] for x, k in zip(g[:ng], ks[:ng])], [[x, k] for x, k in zip(g[ng:], ks[ng:])]
        rel = draw(st.sampled_from(("superset", "superset", "subset", "disjoint", "equal", "senders-only-superset", "replaced-key")))
        if rel == "senders-only-superset":
            pair = [{"senders": base_s, "groups": base_g + extra_g}, {"senders": base_s + extra_s, "groups": base_g + extra_g}]
        elif rel == "replaced-key":
            pair = [{"senders": base_s + extra_s, "groups": base_g}, {"senders": base_s + extra_s, "groups": [[x, draw(keys)] for x, _ in base_g]}]
        else:
            pair = _keyring_pair(rel, base_s, base_g, extra_s, extra_g)
        if draw(st.booleans()):  # three initialisations: another keyring first
            first = draw(st.sampled_from(pair))
            pair = [first] + pair
            rel = "3x:" + rel
        return {"keyrings": pair, "relation": rel, "traffic_between": draw(st.booleans()), "real": False}

    return build()


def enumerate_reinit(ctx) -> None:
    """Deterministic: every relation x {2, 3 initialisations} x traffic in between, table keyrings; and the relations once
    each through genuine Keyring objects (file written by the independent writer, loaded by xknx)."""
    base_s, extra_s = [[0x1101, 0], [0x1102, 500]], [[0x1203, 7], [0x1204, 0]]
    base_g, extra_g = [[0x0901, bytes(range(16))], [0x0902, bytes(range(16, 32))]], [[0x0A01, bytes(range(32, 48))]]
    for rel in ("superset", "subset", "disjoint", "equal"):
        pair = _keyring_pair(rel, base_s, base_g, extra_s, extra_g)
        for traffic in (True, False):
            oracle_reinit(ctx, {"keyrings": pair, "relation": rel, "traffic_between": traffic, "real": False})
            oracle_reinit(ctx, {"keyrings": [pair[1]] + pair, "relation": "3x:" + rel, "traffic_between": traffic, "real": False})
            oracle_reinit(ctx, {"keyrings": pair + [pair[0], pair[1]], "relation": "4x:" + rel, "traffic_between": traffic, "real": False})
        oracle_reinit(ctx, {"keyrings": pair, "relation": rel, "traffic_between": True, "real": True})


def specs():
    from hypothesis import strategies as st

    ns = len(S.service_instances())
    base = S.secure_specs(n_services=ns, max_plain_data=238)
    gaps = st.one_of(st.just(1), st.integers(1, 1 << 48))
    return st.tuples(base, gaps).map(lambda t: {**t[0], "gap": t[1]})


def _shard(ctx, n: int) -> None:
    hyp_search(ctx, specs(), oracle, n)
    hyp_search(ctx, send_histories(), oracle_send_history, max(20, n // 3), seed_salt=9)
    hyp_search(ctx, reinit_histories(), oracle_reinit, max(20, n // 5), seed_salt=10)


def enumerate_lengths(ctx) -> None:
    for alg in ("enc", "auth"):
        for n in range(0, 239):
            oracle(ctx, {"key": bytes((11 * i + n) & 0xFF for i in range(16)), "src": 0x1101 + n, "dst": 0x0400 + n, "tpci": "TDataGroup",
                         "seq": (1 << 40) + n, "alg": alg, "payload": ("gvw", bytes((3 * i + n) & 0xFF for i in range(n))), "priority": 3,
                         "repeat": False, "ack": False, "hop": 6, "code": 0x29, "gap": 1})  # fmt: skip
        for i in range(len(S.service_instances())):
            for tp in S.GROUP_TPCI:
                oracle(ctx, {"key": bytes(range(16)), "src": 0x1101, "dst": 0x0401, "tpci": tp, "seq": 77 + i, "alg": alg, "payload": ("svc", i),
                             "priority": 1, "repeat": True, "ack": False, "hop": 5, "code": 0x29, "gap": 50})  # fmt: skip


def selftest(ctx) -> None:
    ccm.selftest()
    L.selftest()


def literal_frames(ctx) -> None:
    """The literal frame of the repo's tests (recorded from a real device: 4.0.9 -> 0/4/0, GroupValueResponse 74 29 29)
    must be delivered by a receiver holding the key - and dropped with another key."""
    raw = bytes.fromhex("29003ce0400904001103f110002446cfef4ac085e7092ab062b44d")
    spec = {"key": ccm._KEY_0_4_0, "src": 0x4009, "dst": 0x0400, "seq": 155806854986, "gap": 1}  # noqa: SLF001
    inp = {"literal": raw}
    ctx.case(raw, nontrivial=True, cls="literal-device-frame")
    for key, want in ((None, 1), (bytes(16), 0)):
        xknx, rec = make_receiver(spec, key=key)
        try:
            xknx.cemi_handler.handle_raw_cemi(raw)
        except Exception as e:  # noqa: BLE001
            ctx.fail(f"C15:receiver-exc:{exc_site(e)}", inp, f"handle_raw_cemi raised {type(e).__name__}: {e}")
            continue
        got = delivered(xknx, rec)
        if len(got) != want:
            ctx.fail("C15:literal-frame:" + ("not-delivered" if want else "delivered-with-wrong-key"), inp, f"{len(got)} telegrams delivered, expected {want}")
        elif want and (got[0].payload != apci.GroupValueResponse(DPTArray((116, 41, 41))) or got[0].data_secure is not True):
            ctx.fail("C15:literal-frame:payload-or-flag", inp, f"{got[0]} data_secure={got[0].data_secure}")


def run(ctx) -> None:
    literal_frames(ctx)
    enumerate_send_histories(ctx)
    enumerate_reinit(ctx)
    enumerate_lengths(ctx)
    parallel(ctx, _shard, [(ctx.n(300, 8000),)] * ctx.n(8, 16))


def replay(ctx, case) -> None:
    if "literal" in case:
        literal_frames(ctx)
    elif "steps" in case:
        oracle_send_history(ctx, case)
    elif "keyrings" in case:
        oracle_reinit(ctx, case)
    else:
        oracle(ctx, case)
