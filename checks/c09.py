"""C09 - numeric datapoints encode every in-range value within one resolution step.

For every DPTNumeric class, with the declared value_min / value_max / resolution:
* min <= v <= max: to_knx(v) is accepted, yields a DPTArray of the declared length,
  the library's own decoder accepts it and agrees with an independent reference
  decoder (vk/ref/dpt_ref.py, exact rationals), and |decode - v| is smaller than one
  step (the larger of the declared resolution and the wire format's local spacing);
* v outside the range by at least one step: ConversionError;
* v outside by less than a step: ConversionError, or an in-range value less than a
  step away (the boundary), never a wrapped one;
* any other exception type from to_knx is a violation.
NaN is not in the domain.
"""

from __future__ import annotations

from fractions import Fraction
import math
import random

from vk.core import exc_site
from vk.engine import hyp_search, parallel
from vk.ref import dpt_ref as R
from vk.strategies import dpts as D
from xknx.dpt import DPTArray
from xknx.dpt.dpt import DPTNumeric
from xknx.exceptions import ConversionError, CouldNotParseTelegram

PROPERTY = "C09"
LEVEL = "exploration"
TECHNIQUE = "generated values (exhaustive integer ranges, boundary families, seeded random floats) vs independent exact-rational reference decoders"
RULE = (
    "every DPTNumeric class x {all integers of the declared range when it spans <= 70000, min/max +- {0, ulp, step/2, 0.999 step, step, 2 step}, "
    "+-2^k(+-1), +-10^k, +-inf, 1e308, random ints/floats in range, k*res +- ulp, k*res + res*{1/2, 0.999}, DPT 9 mantissa/exponent edges, binary32 edges} "
    "+ a Hypothesis pass over (class, float|int); "
    "non-trivial = within two steps of a range boundary, out of range, or not a multiple of the resolution"
)
ASSUMPTIONS = [
    "declared range/resolution are the class attributes value_min, value_max, resolution (resolution read as the decimal it is written as)",
    "reference formats from KNX 03_07_02: U8/V8/U16/V16/U32/V32/V64 big endian x resolution, 5.001/5.003 scaled octets, F16 0.01*M*2^E, IEEE binary32 (xknx rounds to 7 significant digits)",
    "step = max(declared resolution, local spacing of the wire format at the value); DPT 14: half a binary32 ulp + half a unit of the 7th significant digit",
    "DPT 14 declares -inf..inf: finite values beyond the binary32 range may be refused with ConversionError or encoded as inf",
    "DPT 17 scene numbers are 1-based in the library (declared 1..64 = raw + 1)",
]
LEVEL_TEXT = "exhaustive over the integer values of every <=16-bit type's declared range; sampled boundaries / random floats elsewhere; oracle = exact rational reference"
LEVEL_NOTE = "trusts vk/ref/dpt_ref.py (self-tested against spec examples); wide ranges (DPT 9, 12, 13, 14, 29) are sampled"


class P:
    """Declared parameters of a numeric class."""

    __slots__ = ("T", "main", "sub", "length", "lo", "hi", "res", "loF", "hiF", "intfmt")

    def __init__(self, T) -> None:
        self.T = T
        self.main = T.dpt_main_number
        self.sub = T.dpt_sub_number
        self.length = T.payload_length
        self.lo = T.value_min
        self.hi = T.value_max
        self.res = Fraction(str(T.resolution))
        self.loF = None if isinstance(self.lo, float) and math.isinf(self.lo) else Fraction(self.lo)
        self.hiF = None if isinstance(self.hi, float) and math.isinf(self.hi) else Fraction(self.hi)
        self.intfmt = R.raw_range(self.main) is not None


_P: dict = {}


def params(T) -> P:
    p = _P.get(T)
    if p is None:
        p = _P[T] = P(T)
    return p


def step_at(p: P, fv: Fraction) -> Fraction:
    if p.main == 14:
        return R.f32_ulp(fv) / 2 + R.sig7_unit(fv) / 2
    return max(p.res, R.format_gap(p.main, p.sub, fv, p.res))


def _inp(T, v) -> dict:
    if isinstance(v, float):
        return {"dpt": T.__name__, "float": v.hex() if math.isfinite(v) else repr(v)}
    return {"dpt": T.__name__, "int": str(v)}


def _val(case):
    if "int" in case:
        return int(case["int"])
    s = case["float"]
    return float(s) if s in ("inf", "-inf") else float.fromhex(s)


def check_value(ctx, T, v) -> str:
    """Evaluate one value; returns a classification label for the evidence."""
    p = params(T)
    inf = isinstance(v, float) and math.isinf(v)
    fv = None if inf else Fraction(v)
    in_range = p.lo <= v <= p.hi
    inp = _inp(T, v)
    try:
        payload = T.to_knx(v)
        accepted = True
    except ConversionError:
        accepted = False
    except Exception as e:  # noqa: BLE001
        ctx.fail(f"C09:exc:{exc_site(e)}", inp, f"{T.__name__}.to_knx({v!r}) raised {type(e).__name__}: {e} (declared range {p.lo}..{p.hi})")
        return "exc"

    if in_range:
        # binary32 rounds to +-inf from F32_MAX + half an ulp (2^103) on
        beyond_f32 = p.main == 14 and (inf or abs(fv) >= R.F32_MAX + Fraction(2**103))
        if not accepted:
            if beyond_f32:
                return "in-range:f32-overflow-refused"
            D.fail_capped(ctx, f"C09:inrange-rejected:{D.codec_label(T)}", inp, lambda: f"{T.__name__}.to_knx({v!r}) raised ConversionError although {p.lo} <= v <= {p.hi}", cap=2000)
            return "fail"
        if not _shape_ok(p, payload):
            ctx.fail(f"C09:payload-shape:{D.codec_label(T)}", inp, f"{T.__name__}.to_knx({v!r}) -> {payload!r}, expected DPTArray of {p.length} octets")
            return "fail"
        raw = bytes(payload.value)
        d_ref = R.decode(p.main, p.sub, raw, p.res)
        if isinstance(d_ref, str):  # binary32 special
            if d_ref == "nan" or not beyond_f32 or (d_ref == "inf") != (v > 0):
                ctx.fail(f"C09:wrong-value:{D.codec_label(T)}", inp, f"{T.__name__}.to_knx({v!r}) -> {payload!r} = {d_ref}")
                return "fail"
            return "in-range:f32-overflow-inf"
        side = ("res", "max") if (p.hiF is not None and d_ref > p.hiF) else ("res", "min") if (p.loF is not None and d_ref < p.loF) else ("res",)
        try:
            d_impl = T.from_knx(payload)
        except (ConversionError, CouldNotParseTelegram) as e:
            ctx.fail(f"C09:decoder-rejects-own-encoding:{D.codec_label(T, side)}", inp, f"{T.__name__}.to_knx({v!r}) -> {payload!r} (= {float(d_ref)!r} by the reference) but from_knx raised {type(e).__name__}")
            return "fail"
        except Exception as e:  # noqa: BLE001
            ctx.fail(f"C09:exc:{exc_site(e)}", inp, f"{T.__name__}.from_knx({payload!r}) raised {type(e).__name__}: {e}")
            return "exc"
        di = Fraction(d_impl)
        if p.main == 14:
            # half a unit of the 7th digit, plus the double-precision representation error of the rounded decimal
            agree = abs(di - d_ref) <= R.sig7_unit(d_ref) / 2 + abs(d_ref) / 2**50
            d = di
        elif p.main == 5 and p.sub in (1, 3):
            agree = abs(di - d_ref) <= Fraction(1, 2)  # library rounds the scaled octet to its resolution 1
            d = di
        else:
            agree = abs(di - d_ref) <= p.res / 10**6  # float product k*0.01 vs exact k/100
            d = d_ref
        if not agree:
            ctx.fail(f"C09:decode-differs-from-ref:{D.codec_label(T)}", inp, f"{T.__name__}: {payload!r} decodes to {d_impl!r}, reference {float(d_ref)!r}")
            return "fail"
        if beyond_f32:
            ctx.fail(f"C09:wrong-value:{D.codec_label(T)}", inp, f"{T.__name__}.to_knx({v!r}) -> {payload!r} = {d_impl!r}")
            return "fail"
        step = step_at(p, fv)
        err = abs(d - fv)
        ok = err <= step + abs(fv) / 2**50 if p.main == 14 else err < step
        if not ok:
            ctx.fail(f"C09:error-ge-step:{D.codec_label(T)}", inp, f"{T.__name__}.to_knx({v!r}) -> {payload!r} -> {d_impl!r}: error {float(err)!r} >= step {float(step)!r}")
            return "fail"
        return "in-range:ok"

    # ---- out of the declared range
    if not accepted:
        return "out-of-range:rejected"
    upper = v > p.hi
    bF = p.hiF if upper else p.loF
    side = ("res", "max") if upper else ("res", "min")
    label = D.codec_label(T, side)
    dist = None if inf else abs(fv - bF)
    step_b = step_at(p, bF)
    what = ""
    d = None
    if _shape_ok(p, payload):
        d = R.decode(p.main, p.sub, bytes(payload.value), p.res)
        what = f" -> {payload!r} = {d if isinstance(d, str) else float(d)!r} by the reference"
    if inf or dist >= step_b:
        wrapped = d is not None and not isinstance(d, str) and not inf and abs(d - fv) >= step_b
        ctx.fail(f"C09:outrange-accepted:{label}", inp, f"{T.__name__}.to_knx({v!r}) accepted although declared range is {p.lo}..{p.hi}{what}" + (" (wrapped)" if wrapped else ""))
        return "fail"
    # closer than one step to the boundary: clamping to an in-range value < 1 step away is fine
    if d is None or isinstance(d, str) or (p.loF is not None and d < p.loF) or (p.hiF is not None and d > p.hiF) or abs(d - fv) >= step_b:
        # same root cause as an acceptance further out: one bucket
        ctx.fail(f"C09:outrange-accepted:{label}", inp, f"{T.__name__}.to_knx({v!r}) (out of range by less than a step) accepted{what}: not clamped to the boundary")
        return "fail"
    return "out-of-range:clamped-to-boundary"


def _shape_ok(p: P, payload) -> bool:
    return isinstance(payload, DPTArray) and len(payload.value) == p.length and all(isinstance(b, int) and 0 <= b <= 255 for b in payload.value)


# --------------------------------------------------------------------------- generators


def _num(fr: Fraction):
    """A python number for an exact rational: int when integral, else the nearest float."""
    return fr.numerator if fr.denominator == 1 else float(fr)


def values_for(ctx, T, rng: random.Random):
    """(value, tag) pairs for class T; tags feed the evidence class histogram."""
    p = params(T)
    lo, hi, res = p.loF, p.hiF, p.res
    finite = lo is not None and hi is not None
    # A. every integer of the declared range when it is small enough
    if finite and hi - lo <= 70000:
        for i in range(math.ceil(lo), math.floor(hi) + 1):
            yield i, "int-exhaustive"
    # B. boundary families
    for b in (lo, hi):
        if b is None:
            continue
        st = step_at(p, b)
        for k in (0, Fraction(1, 2), Fraction(999, 1000), 1, Fraction(1001, 1000), 2, 10):
            for sgn in (-1, 1):
                yield _num(b + sgn * k * st), "boundary+-step"
        bf = float(b)
        if math.isfinite(bf):
            yield math.nextafter(bf, math.inf), "boundary+-ulp"
            yield math.nextafter(bf, -math.inf), "boundary+-ulp"
            yield bf, "boundary+-ulp"
    # C. far out / magnitudes
    for k in range(0, 72):
        for sgn in (-1, 1):
            yield sgn * (1 << k), "pow2"
            yield sgn * ((1 << k) - 1), "pow2"
            yield sgn * ((1 << k) + 1), "pow2"
            yield float(sgn * (1 << k)) + 0.5, "pow2"
    for k in range(-12, 41):
        for sgn in (-1, 1):
            yield sgn * 10.0**k, "pow10"
    for x in (1e308, -1e308, math.inf, -math.inf, 3.4028234663852886e38, 3.4028235e38, 3.4028236e38, 3.5e38, -3.4028236e38, 1e-45, 1.4e-45, 7e-46, 1.17549435e-38, 1e-38, 0.0, -0.0, 0.29, 0.57, -0.29, 1.005, 2.675):
        yield x, "special"
    # D. DPT 9 mantissa / exponent edges
    if p.main == 9:
        for e in range(16):
            for m in (-2048, -2047, -1025, -1024, -1, 0, 1, 1023, 1024, 2046, 2047):
                for f in (0, Fraction(-1, 2), Fraction(1, 2), Fraction(-2, 5), Fraction(2, 5), Fraction(3, 5), Fraction(-3, 5), Fraction(49, 100)):
                    yield float((m + f) * (1 << e) / 100), "f16-edges"
    # E. random in-range values
    n = ctx.n(1500, 30000)
    rlo = lo if lo is not None else -R.F32_MAX
    rhi = hi if hi is not None else R.F32_MAX
    span = rhi - rlo
    for _ in range(n):
        mode = rng.randrange(6)
        if mode == 0:  # uniform rational -> float
            yield float(rlo + span * Fraction(rng.getrandbits(53), 1 << 53)), "rand-uniform-float"
        elif mode == 1:  # uniform integer
            yield int(rlo + span * Fraction(rng.getrandbits(64), 1 << 64)), "rand-uniform-int"
        elif mode == 2:  # log-uniform magnitude
            mag = rng.uniform(1, 10) * 10.0 ** rng.randint(-9, 39 if p.main == 14 else 10)
            yield (mag if rng.random() < 0.5 else -mag), "rand-log-float"
        else:  # around a multiple of the resolution
            kmax = int(min(span / res, 2**62))
            k = rng.randrange(kmax + 1) if rng.random() < 0.7 else rng.randrange(min(kmax, 5000) + 1)
            base = rlo + k * res if lo is not None else k * res * rng.choice((-1, 1))
            if p.main == 9:  # snap to the F16 grid near base
                g = R.dpt9_gap(base)
                base = (base / g).__floor__() * g
                st = g
            else:
                st = res
            if mode == 3:
                b = float(base)
                yield rng.choice((b, math.nextafter(b, math.inf), math.nextafter(b, -math.inf))), "k*res+-ulp"
            elif mode == 4:
                yield float(base + st * rng.choice((Fraction(1, 2), Fraction(999, 1000), Fraction(1, 1000), Fraction(501, 1000), Fraction(499, 1000)))), "k*res+frac"
            else:
                yield _num(base), "k*res"


def nontrivial(p: P, v) -> bool:
    if isinstance(v, float) and math.isinf(v):
        return True
    if not (p.lo <= v <= p.hi):
        return True
    fv = Fraction(v)
    for b in (p.loF, p.hiF):
        if b is not None and abs(fv - b) <= 2 * step_at(p, b):
            return True
    if p.main in (9, 14):
        return True  # floats: practically never exactly representable
    return (fv / p.res).denominator != 1


def class_worker(ctx, name: str) -> None:
    T = D.dpt_by_name(name)
    p = params(T)
    rng = random.Random(ctx.shard_seed() ^ 0xC09)
    seen: set = set()
    n = nt = 0
    tags: dict[str, int] = {}
    outcomes: dict[str, int] = {}
    for v, tag in values_for(ctx, T, rng):
        if isinstance(v, float) and math.isnan(v):
            continue
        key = (type(v) is float, v, math.copysign(1, v) if v == 0 else 0)
        if key in seen:
            continue
        seen.add(key)
        out = check_value(ctx, T, v)
        n += 1
        tags[tag] = tags.get(tag, 0) + 1
        outcomes[out] = outcomes.get(out, 0) + 1
        nt += nontrivial(p, v)
    ctx.bulk(n, nt, f"dpt{p.main}")
    for t, c in tags.items():
        ctx.classes["gen:" + t] += c
    for t, c in outcomes.items():
        ctx.classes["outcome:" + t] += c
    if name in ("DPTTemperature", "DPTPercentV16", "DPTTimePeriod10Msec", "DPT4ByteFloat", "DPTAngle", "DPTSceneNumber"):
        ctx.sample({"dpt": name, "declared": [str(p.lo), str(p.hi), str(T.resolution)], "values": n, "nontrivial": nt, "outcomes": outcomes})


def numeric_classes():
    return [T for T in D.all_dpt_classes() if issubclass(T, DPTNumeric)]


def selftest(ctx) -> None:
    R.selftest()


def hyp_oracle(ctx, x) -> None:
    name, v = x
    T = D.dpt_by_name(name)
    out = check_value(ctx, T, v)
    ctx.case((name, type(v) is float, v), nontrivial=nontrivial(params(T), v), cls="hyp:" + out.split(":")[0])


def hyp_strategy():
    from hypothesis import strategies as st

    names = [T.__name__ for T in numeric_classes()]
    value = st.one_of(
        st.floats(allow_nan=False, allow_infinity=True),
        st.floats(allow_nan=False, min_value=-700000, max_value=700000),
        st.integers(-(2**70), 2**70),
        st.integers(-70000, 70000),
    )
    return st.tuples(st.sampled_from(names), value)


def run(ctx) -> None:
    classes = numeric_classes()
    ctx.notes["numeric_classes"] = len(classes)
    parallel(ctx, class_worker, [(T.__name__,) for T in classes])
    # Hypothesis pass (its own float/int edge cases; new buckets are shrunk)
    hyp_search(ctx, hyp_strategy(), hyp_oracle, ctx.n(4000, 60000))


def replay(ctx, case) -> None:
    T = D.dpt_by_name(case["dpt"])
    v = _val(case)
    check_value(ctx, T, v)
    ctx.case(("replay", case["dpt"], repr(v)), nontrivial=True, cls="replay")
