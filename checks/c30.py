"""C30 - secure routing accepts only authenticated, timely frames.

The real `SecureRouting` (Routing + SecureGroup + SecureSequenceTimer) runs on the
virtual-time loop over the fake multicast transport. A history is plain data: frames
arriving from the group while the timer synchronisation is pending and afterwards -
TimerNotify (answers to the pending synchronisation with the right / a wrong tag or
serial, other devices' notifies; timer values before / within / beyond the tolerance;
forged MAC, tampered timer field, wrong key; duplicated in the same loop iteration),
SecureWrappers (early / in tolerance / late / forged / tampered / wrong session id /
forbidden or unparseable inner service) and plain frames of every service type -
interleaved with outgoing sends. All frames are built with the independent reference
vk/ref/ipsecure.py; the random module inside xknx.io.ip_secure is replaced by a stub fed
from the case.

Reference model of the shared timer (KNX IP Secure 03.08.09 §2.2.2.3 as quoted in
ip_secure.py): L(t) = ms(t) + D; an authenticated TimerNotify / (after synchronisation)
SecureWrapper with value v > L(t) moves the timer to v; the authenticated answer to the
pending synchronisation request sets it to v; nothing else changes D.
Oracle: plain frame forwarded <=> discovery / self-description service; wrapped frame
forwarded => MAC ok and v > L - latency (and <= after synchronisation); synchronisation
ends early only on an authenticated answer; the timer value in every outgoing wrapper
equals L(t) of the model (so unauthenticated frames did not move it) and never
decreases; no exception leaves datagram_received or reaches the loop.
"""

from __future__ import annotations

import asyncio
from unittest.mock import patch

from hypothesis import strategies as st

from vk.core import HarnessError, exc_site
from vk.engine import hyp_search, parallel
from vk.ref import ipsecure as ref
from vk.strategies import secureio
from vk.vloop import BudgetExceeded, Deadlock, run_case

PROPERTY = "C30"
LEVEL = "exploration"
TECHNIQUE = "stateful model-based multicast histories (Hypothesis) against the real SecureRouting/SecureGroup on a virtual-time loop; frames built with an independent IP-Secure reference; shared-timer model in lock-step"
RULE = (
    "history = up to 16 ops during and after timer synchronisation: TimerNotify (reply / wrong tag / other device; timer offset relative to the model timer from +5000 ms to far beyond the latency tolerance; genuine, forged MAC, tampered timer, wrong key), "
    "SecureWrapper (same offsets and flaws, wrong session id, forbidden / unparseable inner services), plain frame of any service, exact duplicate of the previous frame in the same loop iteration, outgoing send; latency 500/1000/3000 ms; "
    "non-trivial = synchronisation finished and the history contains at least one frame that must be accepted and one that must be rejected (forged, late or plain non-discovery); every synchronised history ends with an outgoing wrapper whose timer value is compared with the model; distinct by history"
)
LEVEL_TEXT = "Generated multicast histories are run against the real secure routing stack in virtual time; forwarded frames, synchronisation end, timer values of outgoing wrappers and exceptions of the receive path are compared in lock-step with a reference model of the shared timer. Sampled, not exhaustive."
LEVEL_NOTE = "Frames built by vk/ref/ipsecure.py (AN159 vectors); MAC construction itself judged by C28; virtual time; one process, no echo of own multicast frames."
ASSUMPTIONS = [
    "frames are built / outgoing wrappers parsed with the independent reference vk/ref/ipsecure.py; the MAC algorithm itself is judged by C28",
    "random.uniform / random.randbytes inside xknx.io.ip_secure are replaced by a stub fed from the case (notify delays, message tags)",
    "outgoing sends are generated only after connect() returned (Routing does not send before the timer is synchronised)",
    "generated timer values stay below 2**47 + a few seconds: the 48-bit overflow of the shared timer (IPSecureError on send, OverflowError in the notify timer callback) is outside the explored domain",
    "timer values exactly on the tolerance boundary (v == L - latency) are not judged; authenticated wrappers with a forbidden / unparseable inner service carry timer values <= L only (whether they should move the timer is not stated)",
    "duplicated synchronisation answers carry the same timer value as the first answer; any other frame following the answer is delivered at least 1 ms later (a different authenticated notify handled before synchronize() resumes is overwritten by the answer's value - observed, self-healing, not covered by the statement)",
    "wrapped frames that verify and are timely must be forwarded only once the synchronisation has finished (before that the local timer is not authenticated); frames delivered in the very loop iteration in which the answer arrived are not judged for being dropped",
    "forwarded frames are compared through KNXIPFrame.to_knx() (codec judged by C20/C21)",
]

XKNX_SERIAL = bytes.fromhex("0000786b6e78")
PEER_SERIAL = bytes.fromhex("00fa12345678")
KEYS = [bytes(range(16)), bytes.fromhex("0aa227b4fd7a32319ba9960ac036ce0e")]
LATENCIES = [1000, 500, 3000]
BASES = [0.5, 100.0, 2_592_000.0]
OFF = 1.0 / 64000.0
PEER = ("10.0.0.9", 3671)
MAX_T = 2**48 - 1


class _Rand:
    """Stand-in for the `random` module inside xknx.io.ip_secure."""

    def __init__(self, us: list[float]) -> None:
        self.us = us or [0.5]
        self.i = 0
        self.tags = 0

    def uniform(self, a: float, b: float) -> float:
        u = self.us[self.i % len(self.us)]
        self.i += 1
        return a + (b - a) * u

    def randbytes(self, n: int) -> bytes:
        self.tags += 1
        return (0xA000 + self.tags).to_bytes(2, "big")[:n].rjust(n, b"\x00")

    def random(self) -> float:
        return self.uniform(0.0, 1.0)


def inner_frame(name: str):
    if name == "truncated":
        return 0x0530, bytes.fromhex("06100530000a2900"), False  # announces 10 octets, carries 8
    if name == "nested":
        return 0x0950, None, True
    return secureio.catalogue()[name]


def execute(case):
    """Run the history; returns (records, wire, escaped, meta). Each record describes one op with the model's view."""
    from xknx import XKNX
    from xknx.io import ip_secure as mod
    from xknx.io import routing as routing_mod
    from xknx.io.transport.udp_transport import UDPTransport
    from xknx.knxip import KNXIPFrame

    key = KEYS[int(case.get("key", 0)) % len(KEYS)]
    lat = LATENCIES[int(case.get("lat", 0)) % len(LATENCIES)]
    base = BASES[int(case.get("base", 0)) % len(BASES)]
    rnd = _Rand([float(u) for u in case.get("u", [0.5])])
    records: list[dict] = []
    wire: list[tuple] = []  # (t, bytes) written by xknx
    cur: list = [None]
    meta = {"lat": lat, "connect_done": None, "connect_exc": None, "t_start": None}

    class Net:
        def on_datagram(self, tr, data, addr) -> None:
            wire.append((tr.loop.time(), data, len(records)))

    async def scenario(loop):
        loop.net = Net()
        await asyncio.sleep(base)
        xknx = XKNX()
        cemis: list[bytes] = []
        routing = routing_mod.SecureRouting(xknx, None, cemis.append, local_ip="10.0.0.2", backbone_key=key, latency_ms=lat)
        routing.transport.register_callback(lambda f, src, tr: cur[0]["cb"].append((f.header.service_type_ident.value, f.to_knx())) if cur[0] is not None else records.append({"kind": "stray-cb", "service": f.header.service_type_ident.value}), None)
        meta["t_start"] = loop.time()
        task = loop.create_task(routing.connect())

        def _done(t) -> None:
            meta["connect_done"] = loop.time()
            if not t.cancelled() and t.exception() is not None:
                meta["connect_exc"] = (exc_site(t.exception()), repr(t.exception()))

        task.add_done_callback(_done)
        await asyncio.sleep(0)
        await asyncio.sleep(0)
        listener = loop.fake_transports[0] if loop.fake_transports else None
        if listener is None:
            raise HarnessError("no multicast listener")

        # model ---------------------------------------------------------------
        M = {"D": 0, "synced": False, "sync_t": None, "pending_tag": None, "reply_at": None}

        def ms(t: float) -> int:
            return int(t * 1000.0)

        def L() -> int:
            return ms(loop.time()) + M["D"]

        def pending_tag():
            for t, data, _ in wire:
                if data[:6] == bytes.fromhex("061009550024") and data[12:18] == XKNX_SERIAL:
                    return data[18:20]
            return None

        def value(mode, now_l: int) -> int:
            if isinstance(mode, list):
                return min(max(int(mode[1]), 0), MAX_T)
            return min(max(now_l + int(mode), 0), MAX_T)

        prev = [None]
        t_cursor = [loop.time()]

        def deliver(rec: dict, raw: bytes) -> None:
            rec["raw"] = raw
            rec["cb"] = []
            rec["exc"] = None
            cur[0] = rec
            try:
                listener.protocol.datagram_received(raw, PEER)
            except Exception as e:  # noqa: BLE001
                rec["exc"] = (exc_site(e), repr(e))
            finally:
                cur[0] = None
            records.append(rec)

        def refresh() -> None:
            # synchronisation by answer becomes effective once the connect task has run (next loop iteration)
            if not M["synced"] and M["reply_at"] is not None and loop.time() > M["reply_at"][0]:
                M["synced"], M["sync_t"] = True, M["reply_at"][0]
            if not M["synced"] and task.done():
                M["synced"], M["sync_t"] = True, meta["connect_done"]

        for i, op in enumerate(case["ops"]):
            kind, dt = op[0], int(op[1])
            if dt > 0:
                target = t_cursor[0] + dt / 1000.0 + OFF
                await asyncio.sleep(max(target - loop.time(), 0.0))
                t_cursor[0] = loop.time()
            if kind != "dup" and M["reply_at"] is not None and M["reply_at"][0] == loop.time():
                # only exact duplicates share the loop iteration with the synchronisation answer (see ASSUMPTIONS)
                await asyncio.sleep(0.001 + OFF)
                t_cursor[0] = loop.time()
            refresh()
            now = loop.time()
            l_now = L()
            rec = {"i": i, "kind": kind, "t": now, "L": l_now, "synced": M["synced"], "same_iter_as_reply": M["reply_at"] is not None and M["reply_at"][0] == now, "op": op}
            if kind == "notify":
                _, _, who, vmode, flaw = op
                tag_p = pending_tag() or b"\xa0\x01"
                serial, tag = {"reply": (XKNX_SERIAL, tag_p), "wrongtag": (XKNX_SERIAL, b"\x12\x34"), "peer": (PEER_SERIAL, b"\x56\x78"), "peer_sametag": (PEER_SERIAL, tag_p)}[who]
                v = value(vmode, l_now)
                use_key = key if flaw != "key" else bytes([key[0] ^ 1]) + key[1:]
                raw = bytearray(ref.timer_notify_frame(use_key, v.to_bytes(6, "big"), serial, tag))
                wire_v = v
                if flaw == "mac":
                    raw[-1] ^= 1
                elif flaw == "timer":
                    wire_v = min(v + 100_000, MAX_T) if v < MAX_T else v - 1
                    raw[6:12] = wire_v.to_bytes(6, "big")
                authentic = flaw == "none"
                is_reply = authentic and who == "reply" and not M["synced"] and M["reply_at"] is None and not task.done()
                rec.update(v=wire_v, flaw=flaw, who=who, authentic=authentic, is_reply=is_reply)
                deliver(rec, bytes(raw))
                if is_reply:
                    M["reply_at"] = (now, wire_v)
                    M["D"] = wire_v - ms(now)
                elif authentic and wire_v > l_now and not (who == "reply" and M["reply_at"] is not None and M["reply_at"][0] == now):
                    M["D"] += wire_v - l_now
                prev[0] = (dict(rec), bytes(raw))
            elif kind == "wrap":
                _, _, name, vmode, flaw = op
                code, inner, ok = inner_frame(name)
                v = value(vmode, l_now)
                allowed = ok and code not in secureio.FORBIDDEN_WRAPPED
                if not allowed:
                    v = min(v, l_now)
                if name == "nested":
                    inner = ref.wrap(key, 0, v.to_bytes(6, "big"), PEER_SERIAL, b"\x00\x01", secureio.catalogue()["routing_indication"][1])
                use_key = key if flaw != "key" else bytes([key[0] ^ 1]) + key[1:]
                sid = 0 if flaw != "sid" else 1
                raw = bytearray(ref.wrap(use_key, sid, v.to_bytes(6, "big"), PEER_SERIAL, b"\xbe\xef", inner))
                wire_v = v
                if flaw == "mac":
                    raw[-1] ^= 1
                elif flaw == "body":
                    raw[22] ^= 0x80
                elif flaw == "sidfield":
                    raw[6:8] = b"\x00\x01"
                elif flaw == "timer":
                    wire_v = min(v + 100_000, MAX_T) if v < MAX_T else v - 1
                    raw[8:14] = wire_v.to_bytes(6, "big")
                authentic = flaw == "none"
                rec.update(v=wire_v, flaw=flaw, name=name, code=code, inner=inner, allowed=allowed, authentic=authentic)
                deliver(rec, bytes(raw))
                if authentic and allowed and M["synced"] and wire_v > l_now:
                    M["D"] += wire_v - l_now
                prev[0] = (dict(rec), bytes(raw))
            elif kind == "plain":
                code, raw, ok = inner_frame(op[2])
                rec.update(name=op[2], code=code, parseable=ok)
                deliver(rec, raw)
                prev[0] = (dict(rec), raw)
            elif kind == "dup":
                if prev[0] is None:
                    continue
                r0, raw = prev[0]
                rec.update({k: v for k, v in r0.items() if k not in ("i", "t", "L", "synced", "same_iter_as_reply", "op", "cb", "exc", "raw")})
                rec["kind"] = r0["kind"]
                rec["dup"] = True
                rec["is_reply"] = False
                deliver(rec, raw)
                # same rules as for the original: the copy moves the timer only if its value is (still) ahead,
                # e.g. a wrapper first seen before synchronisation and seen again afterwards
                if rec["kind"] == "wrap":
                    if rec["authentic"] and rec["allowed"] and M["synced"] and rec["v"] > l_now:
                        M["D"] += rec["v"] - l_now
                elif rec["kind"] == "notify":
                    if rec["authentic"] and rec["v"] > l_now and not (M["reply_at"] is not None and M["reply_at"][0] == now):
                        M["D"] += rec["v"] - l_now
            elif kind == "send":
                if not task.done():
                    continue
                n0 = len(wire)
                rec["exc"] = None
                frame, _ = KNXIPFrame.from_knx(secureio.catalogue()["routing_indication"][1])
                try:
                    routing.transport.send(frame)
                except Exception as e:  # noqa: BLE001
                    rec["exc"] = (exc_site(e), repr(e))
                rec["sent"] = [d for _, d, _ in wire[n0:]]
                records.append(rec)
            else:
                raise HarnessError(f"unknown op {op}")
        # let a pending synchronisation run out, then one final send to read the timer
        await asyncio.sleep(max(0.0, meta["t_start"] + 12 * lat / 10000.0 + 2 * lat / 1000.0 + 0.5 - loop.time()) + OFF * 40)
        refresh()
        if task.done() and meta["connect_exc"] is None:
            rec = {"i": len(case["ops"]), "kind": "send", "t": loop.time(), "L": L(), "synced": M["synced"], "op": ["send", 0], "final": True, "exc": None}
            n0 = len(wire)
            frame, _ = KNXIPFrame.from_knx(secureio.catalogue()["routing_indication"][1])
            try:
                routing.transport.send(frame)
            except Exception as e:  # noqa: BLE001
                rec["exc"] = (exc_site(e), repr(e))
            rec["sent"] = [d for _, d, _ in wire[n0:]]
            records.append(rec)
        meta["model_reply_at"] = M["reply_at"]
        if not task.done():
            task.cancel()
        await routing.disconnect()
        xknx.started.clear()
        return None

    with patch.object(mod, "random", rnd), patch.object(UDPTransport, "create_multicast_sock", staticmethod(lambda own_ip, remote_addr: object())):
        _, loop = run_case(scenario, max_iters=400_000)
    return records, wire, loop.escaped, meta


# ---------------------------------------------------------------------------


def _flawname(f: str) -> str:
    return {"mac": "forged-mac", "body": "tampered-ciphertext", "timer": "tampered-timer-field", "key": "wrong-key", "sid": "wrong-session-id", "sidfield": "tampered-session-id-field"}[f]


def judge(ctx, case, records, wire, escaped, meta) -> dict:
    inp = case
    lat = meta["lat"]
    info = {"synced_by": None, "accept": 0, "reject": 0, "after": 0, "dup_reply": 0}
    for e in escaped:
        exc = e["exception"]
        ctx.fail(f"C30:escaped:{exc_site(exc) if exc is not None else e['message'][:40]}", inp, e["repr"] + " " + e["message"])
    if meta["connect_exc"]:
        ctx.fail(f"C30:connect-raised:{meta['connect_exc'][0]}", inp, meta["connect_exc"][1])
    # synchronisation end
    reply = meta.get("model_reply_at")
    done = meta["connect_done"]
    if reply is not None:
        info["synced_by"] = "reply"
        if done is None or done > reply[0] + 1e-9:
            ctx.fail("C30:sync:not-completed-by-authenticated-reply", inp, f"authenticated answer at {reply[0]}, connect() finished at {done}")
    else:
        info["synced_by"] = "timeout" if done is not None else None
        if done is not None and done - meta["t_start"] < 2 * lat / 1000.0:
            ctx.fail("C30:sync:completed-without-authenticated-reply", inp, f"connect() finished {done - meta['t_start']:.3f} s after the synchronisation request although no authenticated answer arrived")
    last_out = None
    seen_valid = False
    for r in records:
        kind = r["kind"]
        if kind == "stray-cb":
            ctx.fail("C30:callback-outside-receive", inp, f"service {r['service']:#06x}")
            continue
        if r.get("exc"):
            where = "send" if kind == "send" else "receive"
            if where == "send" and r["exc"][0].startswith("IPSecureError@"):
                ctx.notes["send_raised_IPSecureError"] = ctx.notes.get("send_raised_IPSecureError", 0) + 1  # declared (counter overflow)
            else:
                ctx.fail(f"C30:{where}-raised:{r['exc'][0]}", inp, f"op {r['i']} {r['op']}: {r['exc'][1]}")
        if kind == "send":
            for data in r.get("sent", []):
                if data[:4] != bytes.fromhex("06100950"):
                    continue
                tv = int.from_bytes(data[8:14], "big")
                info["after"] += 1 if seen_valid else 0
                if last_out is not None and tv < last_out:
                    ctx.fail("C30:outgoing-timer-decreased", inp, f"wrapper timer {tv} after {last_out}")
                last_out = tv if last_out is None else max(last_out, tv)
                if tv > r["L"]:
                    ctx.fail("C30:timer:moved-without-authenticated-frame", inp, f"outgoing wrapper at t={r['t']:.6f} carries timer {tv}, model of authenticated frames gives {r['L']} (+{tv - r['L']} ms)")
                elif tv < r["L"]:
                    ctx.fail("C30:timer:behind-authenticated-frames", inp, f"outgoing wrapper at t={r['t']:.6f} carries timer {tv}, model gives {r['L']} ({tv - r['L']} ms)")
            continue
        n = len(r["cb"])
        if kind == "plain":
            disc = r["code"] in secureio.DISCOVERY_SERVICES
            if r["code"] in (0x0950, 0x0955):
                disc = False  # handled as (forged) secure frames
            if n and not disc:
                ctx.fail(f"C30:forwarded:plain:{r['code']:04x}", inp, f"plain {r['name']} forwarded to callbacks")
            if disc and r["parseable"]:
                info["accept"] += 1
                if n != 1:
                    ctx.fail(f"C30:dropped:plain-discovery:{r['code']:04x}", inp, f"plain {r['name']} forwarded {n} times")
                elif r["cb"][0][1] != r["raw"]:
                    ctx.fail("C30:forwarded:content", inp, f"{r['cb'][0][1].hex()} for {r['raw'].hex()}")
            elif not disc:
                info["reject"] += 1
            continue
        if kind == "notify":
            if n:
                ctx.fail("C30:forwarded:timer-notify", inp, f"TimerNotify forwarded to callbacks ({n})")
            if r["authentic"]:
                info["accept"] += 1
                if r.get("dup") and r["who"] == "reply":
                    info["dup_reply"] += 1
            else:
                info["reject"] += 1
            continue
        if kind == "wrap":
            v, l_now = r["v"], r["L"]
            timely = v > l_now - lat
            boundary = v == l_now - lat
            ok = r["authentic"] and r["allowed"] and timely
            if n and not ok:
                if not r["authentic"]:
                    why = _flawname(r["flaw"])
                elif not r["allowed"]:
                    why = "forbidden-or-unparseable-inner"
                else:
                    why = "late-timer"
                if not (why == "late-timer" and boundary):
                    ctx.fail(f"C30:forwarded:wrapped:{why}", inp, f"wrapped {r['name']} v={v} (model timer {l_now}, latency {lat}, flaw {r['flaw']}, synced {r['synced']}) forwarded")
            if n and ok and not r["synced"]:
                ctx.fail("C30:forwarded:wrapped:before-synchronisation", inp, f"wrapped {r['name']} forwarded before the timer synchronisation finished")
            if ok and r["synced"]:
                info["accept"] += 1
                seen_valid = True
                if n != 1 and not r.get("same_iter_as_reply"):
                    ctx.fail("C30:dropped:valid-wrapped-frame" if n == 0 else "C30:forwarded:twice", inp, f"genuine wrapped {r['name']} v={v} (model timer {l_now}, latency {lat}) forwarded {n} times")
                elif n == 1 and r["cb"][0][1] != r["inner"]:
                    ctx.fail("C30:forwarded:content", inp, f"{r['cb'][0][1].hex()} for {r['inner'].hex()}")
            elif not ok and not boundary:
                info["reject"] += 1
    return info


def check_case(ctx, case):
    try:
        records, wire, escaped, meta = execute(case)
    except (BudgetExceeded, Deadlock):
        ctx.notes["inconclusive"] = ctx.notes.get("inconclusive", 0) + 1
        return None
    except HarnessError:
        raise
    except Exception as e:  # noqa: BLE001
        ctx.fail(f"C30:scenario-exc:{exc_site(e)}", case, repr(e))
        return None
    return judge(ctx, case, records, wire, escaped, meta)


# ---------------------------------------------------------------------------
# generator

_CAT = sorted(secureio.catalogue())
_voff = st.one_of(
    st.sampled_from([5000, 1, 0, -1, -50, -99, -100, -101, -499, -500, -501, -999, -1000, -1001, -2999, -3001, -5000, 60000, -60000]),
    st.integers(-4000, 4000),
    st.tuples(st.just("abs"), st.sampled_from([0, 1, 1000, 10**6, 5 * 10**9, 2**47])).map(list),
)
_dt = st.sampled_from([0, 1, 1, 5, 50, 120, 400, 1000, 3500, 11000])
_nflaw = st.sampled_from(["none", "none", "none", "mac", "timer", "key"])
_wflaw = st.sampled_from(["none", "none", "none", "none", "none", "mac", "body", "timer", "key", "sid", "sidfield"])
_who = st.sampled_from(["reply", "reply", "wrongtag", "peer", "peer", "peer_sametag"])
_inner = st.one_of(st.just("routing_indication"), st.just("routing_indication"), st.sampled_from(["routing_busy", "routing_lost_message", "search_request", "tunnelling_request", "nested", "truncated", "remote_diag_request", "secure_wrapper_garbage", "unknown_service_0999", "timer_notify_zero_mac"]), st.sampled_from(_CAT))

_notify = st.tuples(st.just("notify"), _dt, _who, _voff, _nflaw)
_wrap = st.tuples(st.just("wrap"), _dt, _inner, _voff, _wflaw)
_plain = st.tuples(st.just("plain"), _dt, st.sampled_from(_CAT))
_dup = st.tuples(st.just("dup"), st.sampled_from([0, 0, 0, 1, 50]))
_send = st.tuples(st.just("send"), _dt)


@st.composite
def histories(draw):
    ops = draw(st.lists(st.one_of(_notify, _notify, _wrap, _wrap, _wrap, _plain, _dup, _send), min_size=1, max_size=16))
    # most histories get an early authenticated answer so that the synchronised phase is long
    if draw(st.integers(0, 3)) > 0:
        pos = draw(st.integers(0, min(2, len(ops))))
        ops.insert(pos, ("notify", draw(st.sampled_from([1, 5, 120])), "reply", draw(_voff), "none"))
    return {
        "key": draw(st.integers(0, 1)),
        "lat": draw(st.sampled_from([0, 0, 1, 2])),
        "base": draw(st.integers(0, 2)),
        "u": draw(st.lists(st.sampled_from([0.0, 0.3, 0.5, 0.9, 1.0]), min_size=1, max_size=3)),
        "ops": [list(o) for o in ops],
    }


def _labels(case, info) -> list[str]:
    cl = []
    if info:
        cl.append(f"sync:{info['synced_by']}")
        if info["dup_reply"]:
            cl.append("duplicated-sync-reply")
    for o in case["ops"]:
        if o[0] == "notify":
            cl.append(f"notify:{o[2]}:{o[4]}")
        elif o[0] == "wrap":
            cl.append(f"wrap:{o[4]}")
        else:
            cl.append(o[0])
    return sorted(set(cl))


def _hyp_oracle(ctx, case) -> None:
    info = check_case(ctx, case)
    nt = bool(info and info["synced_by"] and info["accept"] and info["reject"])
    ctx.case(repr(case), nontrivial=nt, cls=_labels(case, info), sample=case["ops"] if len(case["ops"]) > 6 else None)


def _hyp_shard(ctx, n: int) -> None:
    hyp_search(ctx, histories(), _hyp_oracle, n)


def _sweep_shard(ctx, part: int) -> None:
    """Every catalogue frame once plain and once wrapped, before and after synchronisation; timer offsets around both tolerances."""
    n = nt = 0
    for i, name in enumerate(_CAT):
        if i % 4 != part:
            continue
        ops = [["plain", 1, name], ["wrap", 1, name, 0, "none"], ["notify", 5, "reply", 1000, "none"], ["plain", 5, name], ["wrap", 5, name, -10, "none"], ["wrap", 5, name, -10, "mac"], ["send", 5]]
        info = check_case(ctx, {"key": i % 2, "lat": i % 3, "base": i % 3, "u": [0.5], "ops": ops})
        n += 1
        nt += 1 if info and info["accept"] and info["reject"] else 0
    for j, off in enumerate([5000, 1, 0, -1, -99, -100, -101, -999, -1000, -1001, -5000]):
        if j % 4 != part:
            continue
        for lat in (0, 1, 2):
            for flaw in ("none", "mac", "timer"):
                ops = [["notify", 1, "reply", ["abs", 10**6], "none"], ["send", 5], ["wrap", 50, "routing_indication", off, flaw], ["send", 5], ["notify", 50, "peer", off, flaw if flaw != "body" else "mac"], ["send", 5], ["wrap", 5, "routing_indication", 0, "none"]]
                info = check_case(ctx, {"key": 0, "lat": lat, "base": 1, "u": [0.5], "ops": ops})
                n += 1
                nt += 1 if info and info["accept"] and info["after"] else 0
    ctx.bulk(n, nt, "sweep:services-and-tolerance-boundaries")
    ctx.sample({"sweep": "plain X, wrapped X, sync reply, plain X, wrapped X genuine/forged, send; offsets around L, L-10%, L-latency", "part": part})


def selftest(ctx) -> None:
    ref.selftest()
    secureio.selftest()


def run(ctx) -> None:
    parallel(ctx, _sweep_shard, [(p,) for p in range(4)])
    parallel(ctx, _hyp_shard, [(ctx.n(100, 1500),)] * 16)
    ctx.exhaustive = False


def replay(ctx, case) -> None:
    case = dict(case)
    case["ops"] = [list(o) for o in case["ops"]]
    check_case(ctx, case)
