"""C43 - point-to-point management connections follow the transport-layer protocol.

A real `Management` / `P2PConnection` (inside a real XKNX on the virtual-time loop, stub
interface that records every sent cEMI frame and confirms it) is driven by generated
histories: connect / request / idle / disconnect steps, each with a list of transport
frames injected from the bus (T_ACK / T_NAK with any number, numbered data with the
expected / previous / other numbers and right / wrong payload type, T_Disconnect,
T_Connect, from the peer or from another device) in the same loop iteration, a few
iterations later, or after generated virtual times around the 3 s / 6 s timeouts.

A reference written from the KNX transport layer (03_03_04: connection open between
T_Connect and either side's T_Disconnect; receive counter advanced by every in-sequence
numbered data frame of the open connection; counters modulo 16) runs in lock-step and
tags every injected frame. The oracle reads only the logs (frames injected, frames
sent, request outcomes, exceptions at the injection site / in the loop handler).
"""

from __future__ import annotations

import asyncio
import itertools
from types import SimpleNamespace
from unittest import mock

from hypothesis import strategies as st

from vk.core import exc_site
from vk.engine import hyp_search, parallel
from vk.vloop import BudgetExceeded, Deadlock, run_case

PROPERTY = "C43"
LEVEL = "exploration"
TECHNIQUE = (
    "generated transport-frame histories (Hypothesis) + bounded exhaustive core (all received-frame sequences up to length 3/4 "
    "around one request) replayed against the real P2PConnection on a virtual-time loop vs a KNX transport-layer reference"
)
RULE = (
    "case = connection rate limit + steps (connect / request[DeviceDescriptorRead|AuthorizeRequest] / idle / disconnect), each step with "
    "received frames (T_ACK/T_NAK any number, numbered data expected/previous/other number x right/wrong type, T_Disconnect, T_Connect; "
    "from the peer or another device) at gaps {same loop iteration, next iterations, virtual seconds around 3 s / 6 s}; exhaustive core: "
    "all sequences up to length 3 (quick) / 4 (thorough) over a 10-frame alphabet around the first request (all same-iteration/later-iteration gap patterns up to length 2 / 3, four patterns at the longest length), "
    "followed by a cleanly answered second request; non-trivial = at least one request that receives something other than exactly its own "
    "T_ACK followed by the expected response; distinct by case"
)
LEVEL_TEXT = (
    "Every bounded received-frame sequence around one request, and sampled longer histories with several requests, reconnects and "
    "timeout-coincident arrivals, are executed against the real connection object in virtual time; request outcomes, sent frames and "
    "exceptions are judged against a reference transport-layer automaton. Sampled beyond the bound, not a proof."
)
LEVEL_NOTE = (
    "Single client, single-threaded asyncio on a virtual clock; the interface below the cEMI handler is a stub that confirms every frame "
    "immediately (L_Data.con); frames are injected through the full cEMI receive path (encoder/decoder judged by C03/C13)."
)
ASSUMPTIONS = [
    "interface stub confirms every L_Data.req in the same loop iteration; no send errors (those are C14/C24 territory)",
    "time.time() as read by xknx.management.management is the virtual clock (+1000 s so the first request is not rate limited, as with a real clock)",
    "reference receive counter: advanced by every numbered data frame of the open connection that carries the expected number (KNX 03_03_04 §5), "
    "whether or not the client application consumes it; 'immediately preceding number' is taken modulo 16 even before the first frame",
    "a frame that arrived before the data frame of a request was first transmitted is not a response to that request (bucket response:stale)",
    "number judgements (returned response, T_ACK window) are skipped - counted in notes - after an in-sequence frame that no request returned or a T_Connect of the peer on the open connection: "
    "the statement does not fix the expected number there (a client with an occupied response slot may have discarded the frame)",
    "a T_ACK is attributed to the latest not yet acknowledged data frame with that number from that device received up to the iteration the T_ACK went out, preferring a frame that satisfies the rule",
    "time bound of a request = 1/rate_limit + 3 s + 3 s (ACK, one repetition) + 6 s (response), constants read from the module",
]

PEER = "1.1.5"
OTHER = "1.1.9"
SRC = {"p": PEER, "o": OTHER}
GAPS_T = [0.5, 2.9, 3.0, 3.1, 5.9, 6.0, 6.1, 9.0]


# ---------------------------------------------------------------------------
# execution


def execute(case):
    """Run one history. Returns the observation record (plain data + exception objects)."""
    import xknx.management.management as mm
    from xknx.exceptions import ManagementConnectionError
    from xknx.telegram import IndividualAddress, apci, tpci

    from vk.simbus import FrameInjector
    from vk.xharness import XH

    rate = int(case.get("rate", 0))
    obs = {"rx": [], "reqs": [], "api": [], "epochs": [], "sent": [], "escaped": [], "bound": None}

    async def scenario(loop):
        h = await XH.create(loop)
        h.connect()
        inj = FrameInjector(h)
        xknx = h.xknx
        stub = h.stub
        conn = None
        ref = {"open": False, "R": 0}  # reference transport layer for PEER; OTHER never has a connection
        cur = {"req": None, "tx0": 0}
        uid = [0]

        def data_tx_since(n0):
            return [r for r in stub.sent[n0:] if r["telegram"] is not None and isinstance(r["telegram"].tpci, tpci.TDataConnected) and str(r["telegram"].destination_address) == PEER]

        def requests_transmitted():
            """Number of requests so far whose data frame went out at least once."""
            return sum(1 for rq in obs["reqs"] if data_tx_since(rq["sent_from"])[:1] and (rq.get("sent_to") is None or any(True for _ in data_tx_between(rq["sent_from"], rq["sent_to"]))))

        def data_tx_between(n0, n1):
            return [r for r in stub.sent[n0:n1] if r["telegram"] is not None and isinstance(r["telegram"].tpci, tpci.TDataConnected) and str(r["telegram"].destination_address) == PEER]

        def last_own_seq():
            for r in reversed(stub.sent):
                tg = r["telegram"]
                if tg is not None and isinstance(tg.tpci, tpci.TDataConnected) and str(tg.destination_address) == PEER:
                    return tg.tpci.sequence_number
            return 0

        def inject(frame):
            kind, s = frame[0], frame[1]
            src = SRC[s]
            mine = s == "p"
            meta = {"kind": kind, "from": s, "req": cur["req"], "after_tx": cur["req"] is not None and bool(data_tx_since(cur["tx0"])), "ref_open": ref["open"] and mine, "ref_R": ref["R"] if mine else None, "epoch": len(obs["epochs"]), "ntx": requests_transmitted()}
            if kind in ("ack", "nak"):
                n = (last_own_seq() + int(frame[2])) & 0xF
                tg = inj.ack(n) if kind == "ack" else inj.nak(n)
            elif kind == "data":
                base = ref["R"] if mine else 0
                n = (base + int(frame[2])) & 0xF
                uid[0] += 1
                meta["uid"] = uid[0]
                meta["typ"] = frame[3]
                meta["fresh"] = bool(mine and ref["open"] and n == ref["R"])
                meta["repeat"] = bool(mine and ref["open"] and n == (ref["R"] - 1) & 0xF)
                payload = apci.DeviceDescriptorResponse(descriptor=0, value=uid[0]) if frame[3] == "dd" else apci.AuthorizeResponse(level=uid[0] & 0xFF)
                tg = inj.data(n, payload)
                if meta["fresh"]:
                    ref["R"] = (ref["R"] + 1) & 0xF
            elif kind == "disc":
                tg = inj.disconnect()
                if mine:
                    ref["open"] = False
            elif kind == "conn":
                tg = inj.connect()
            else:
                raise ValueError(f"unknown frame {frame!r}")
            rec = inj.inject(src, tg, **meta)
            obs["rx"].append(rec)

        async def play(events):
            for gap, frame in events:
                if gap == "s":
                    pass
                elif gap == "y":
                    await h.settle()
                else:
                    await asyncio.sleep(float(gap))
                inject(frame)

        clock = SimpleNamespace(time=lambda: 1000.0 + loop.time())
        with mock.patch.object(mm, "time", clock):
            obs["bound"] = (1.0 / rate if rate else 0.0) + 2 * mm.MANAGAMENT_ACK_TIMEOUT + mm.MANAGAMENT_CONNECTION_TIMEOUT
            for si, step in enumerate(case["steps"]):
                op = step[0]
                if op == "connect":
                    if conn is not None:
                        continue
                    try:
                        conn = await xknx.management.connect(IndividualAddress(PEER), rate_limit=rate)
                        ref["open"], ref["R"] = True, 0
                        obs["epochs"].append({"step": si, "sent_from": len(stub.sent)})
                        obs["api"].append((si, "connect", "ok", None))
                    except ManagementConnectionError as e:
                        obs["api"].append((si, "connect", "mce", type(e).__name__))
                    except Exception as e:  # noqa: BLE001
                        obs["api"].append((si, "connect", "exc", e))
                    await h.settle()
                elif op == "disconnect":
                    if conn is None:
                        continue
                    ref["open"] = False
                    try:
                        await conn.disconnect()
                        obs["api"].append((si, "disconnect", "ok", None))
                    except ManagementConnectionError as e:
                        obs["api"].append((si, "disconnect", "mce", type(e).__name__))
                    except Exception as e:  # noqa: BLE001
                        obs["api"].append((si, "disconnect", "exc", e))
                    conn = None
                    await h.settle()
                elif op == "idle":
                    await play(step[1])
                    await h.settle()
                elif op == "req":
                    if conn is None:
                        continue
                    kind, events = step[1], step[2]
                    early = len(step) > 3 and step[3] == "early"
                    payload = apci.DeviceDescriptorRead(descriptor=0) if kind == "dd" else apci.AuthorizeRequest(key=si + 1)
                    rq = {"step": si, "kind": kind, "t0": loop.time(), "tick0": loop.tick, "sent_from": len(stub.sent), "t_end": None, "outcome": None}
                    obs["reqs"].append(rq)
                    cur["req"], cur["tx0"] = len(obs["reqs"]) - 1, len(stub.sent)
                    task = asyncio.ensure_future(conn.request(payload))

                    def _done(_t, rq=rq):
                        rq["t_end"] = loop.time()
                        rq["sent_to"] = len(stub.sent)

                    task.add_done_callback(_done)
                    if early:
                        await asyncio.sleep(0)
                    else:
                        limit = loop.time() + 0.5
                        spins = 0
                        while not task.done() and not data_tx_since(cur["tx0"]) and loop.time() < limit:
                            spins += 1
                            await asyncio.sleep(0 if spins < 30 else 0.005)
                    await play(events)
                    done, _ = await asyncio.wait({task}, timeout=obs["bound"] + 10.0)
                    if not done:
                        rq["outcome"] = ("hang",)
                        rq["t_end"] = loop.time()
                        rq["sent_to"] = len(stub.sent)
                        task.cancel()
                        await asyncio.gather(task, return_exceptions=True)
                    else:
                        try:
                            res = task.result()
                            p = res.payload
                            rid = getattr(p, "value", None) if isinstance(p, apci.DeviceDescriptorResponse) else (getattr(p, "level", None) if isinstance(p, apci.AuthorizeResponse) else None)
                            rq["outcome"] = ("ok", type(p).__name__, rid, str(res.source_address), getattr(res.tpci, "sequence_number", None), type(res.tpci).__name__)
                        except ManagementConnectionError as e:
                            rq["outcome"] = ("mce", type(e).__name__)
                        except BaseException as e:  # noqa: BLE001
                            rq["outcome"] = ("exc", e)
                    cur["req"] = None
                    await h.settle()
                else:
                    raise ValueError(f"unknown step {step!r}")
            await h.settle(1.0)
            for r in stub.sent:
                tg = r["telegram"]
                obs["sent"].append({"t": r["t"], "tick": r["tick"], "tpci": type(tg.tpci).__name__ if tg is not None else None, "seq": tg.tpci.sequence_number if tg is not None and tg.tpci.numbered else None, "dst": str(tg.destination_address) if tg is not None else None, "apci": type(tg.payload).__name__ if tg is not None and tg.payload is not None else None, "raw": r["cemi"].to_knx() if tg is not None else b""})
        await h.close()
        return None

    _, loop = run_case(scenario, max_iters=300_000)
    obs["escaped"] = loop.escaped
    return obs


# ---------------------------------------------------------------------------
# oracle


def _frame_cause(rec):
    return {"ack": "TAck-TNak", "nak": "TAck-TNak", "disc": "TDisconnect", "data": "TDataConnected", "conn": "TConnect"}[rec["kind"]]


def _ambiguous_before(obs, rec, returned) -> bool:
    """True if, earlier in the same connection epoch, the reference receive counter may be ahead of a
    conforming client with a single response slot, so that the statement does not fix the expected number:
    (i)   a T_Connect of the peer on the open connection (undefined in 03_03_04 for the client role);
    (ii)  an in-sequence frame F2 that arrived while an earlier in-sequence frame F1 may still have occupied the
          slot: no request was transmitted between them (a request empties the slot before it sends) and F1 was
          not handed to its request before F2 came - the client may have discarded F2 without counting it;
    (iii) an in-sequence frame, never returned, that arrived at the very instant its request ended (timeout race).
    A frame that is merely received and never consumed (its request had failed, the next request discards it)
    is NOT ambiguous: it was accepted, the counter moved on."""
    fresh = []
    ends = {qi: rq["t_end"] for qi, rq in enumerate(obs["reqs"]) if rq.get("t_end") is not None}
    for r in obs["rx"][: rec["i"]]:
        if r.get("epoch") != rec.get("epoch") or r["from"] != "p":
            continue
        if r["kind"] == "conn" and r["ref_open"]:
            return True
        if r["kind"] == "data" and r["fresh"]:
            if r["uid"] not in returned and r["req"] in ends and abs(ends[r["req"]] - r["t"]) < 1e-9:
                return True
            fresh.append(r)
    for a in range(len(fresh)):
        f1 = fresh[a]
        consumed_by = f1["req"] if f1["uid"] in returned and f1["req"] is not None and f1["after_tx"] else None
        for f2 in fresh[a + 1 :]:
            if f2["ntx"] > f1["ntx"]:
                break  # a request went out in between: slot emptied, and so for all later frames
            if consumed_by is not None and f2["req"] != consumed_by:
                break  # F1 was returned by its request before F2 arrived
            return True
    return False


def judge(ctx, case, obs) -> None:
    from xknx.exceptions import ManagementConnectionError

    inp = case
    rx = obs["rx"]
    # (1) the receive path never raises
    for rec in rx:
        if rec["raised"] is not None:
            e = rec["raised"]
            ctx.fail(f"C43:receive-path-raised:{_frame_cause(rec)}:{exc_site(e)}", inp, f"injecting frame #{rec['i']} {rec['tpci']} seq={rec.get('seq')} from {rec['src']} at t={rec['t']} tick={rec['tick']}: {e!r}")
    for e in obs["escaped"]:
        exc = e["exception"]
        if isinstance(exc, ManagementConnectionError) and "never retrieved" in e["message"]:
            continue  # an unconsumed failure stored in a future, reported at garbage collection: nothing raised
        ctx.fail(f"C43:escaped:{type(exc).__name__ if exc is not None else e['message'][:40]}", inp, e["repr"] + " " + e["message"])
    for si, what, kind, info in obs["api"]:
        if kind == "exc":
            ctx.fail(f"C43:{what}-raised-undeclared:{exc_site(info)}", inp, repr(info))
    # (2) request outcomes
    by_uid = {r["uid"]: r for r in rx if r.get("uid") is not None}
    returned = {rq["outcome"][2] for rq in obs["reqs"] if rq["outcome"] is not None and rq["outcome"][0] == "ok"}
    used: dict[int, int] = {}
    for qi, rq in enumerate(obs["reqs"]):
        out = rq["outcome"]
        if out is None:
            continue
        if out[0] == "hang":
            ctx.fail("C43:request:no-outcome-within-bound", inp, f"request #{qi} (step {rq['step']}) still pending {obs['bound'] + 10.0} s after the call")
            continue
        dur = rq["t_end"] - rq["t0"]
        if dur > obs["bound"] + 1e-6:
            ctx.fail("C43:request:exceeds-time-bound", inp, f"request #{qi} ended after {dur} s, bound {obs['bound']} s; outcome {out[:2]}")
        if out[0] == "exc":
            ctx.fail(f"C43:request-raised-undeclared:{exc_site(out[1])}", inp, f"request #{qi}: {out[1]!r}")
            continue
        if out[0] == "mce":
            continue
        _, pname, rid, src, seq, tname = out
        want = {"dd": "DeviceDescriptorResponse", "auth": "AuthorizeResponse"}[rq["kind"]]
        if pname != want or tname != "TDataConnected":
            ctx.fail("C43:response:unexpected-type", inp, f"request #{qi} ({rq['kind']}) returned {tname}/{pname}")
            continue
        rec = by_uid.get(rid)
        if rec is None or rec["typ"] != rq["kind"] or rec.get("seq") != seq:
            ctx.fail("C43:response:not-a-received-frame", inp, f"request #{qi} returned {pname} id={rid} seq={seq} from {src}, which matches no injected frame")
            continue
        if rec["from"] != "p" or src != PEER:
            ctx.fail("C43:response:from-other-device", inp, f"request #{qi} returned frame #{rec['i']} sent by {rec['src']}")
            continue
        if rid in used:
            ctx.fail("C43:response:returned-twice", inp, f"frame #{rec['i']} returned by request #{used[rid]} and again by request #{qi}")
        used.setdefault(rid, qi)
        if rec["req"] != qi or not rec["after_tx"]:
            ctx.fail("C43:response:stale", inp, f"request #{qi} returned frame #{rec['i']} (seq {seq}) that was received {'during request #%s' % rec['req'] if rec['req'] is not None else 'while no request was active'}{'' if rec['after_tx'] else ', before the request frame was transmitted'}")
        elif not rec["fresh"] and _ambiguous_before(obs, rec, returned):
            ctx.notes["sequence_judgement_skipped_ambiguous"] = ctx.notes.get("sequence_judgement_skipped_ambiguous", 0) + 1
        elif not rec["fresh"]:
            why = "connection closed by T_Disconnect" if not rec["ref_open"] else f"expected number {rec['ref_R']}"
            ctx.fail("C43:response:wrong-sequence-number", inp, f"request #{qi} returned frame #{rec['i']} carrying number {seq}; reference at arrival: {why}")
    # (3) outgoing data numbers
    sent = obs["sent"]
    epochs = obs["epochs"]
    for ei, ep in enumerate(epochs):
        lo = ep["sent_from"]
        hi = epochs[ei + 1]["sent_from"] if ei + 1 < len(epochs) else len(sent)
        k = 0
        for qi, rq in enumerate(obs["reqs"]):
            if not (lo <= rq["sent_from"] < hi) or rq.get("sent_to") is None:
                continue
            txs = [s for s in sent[rq["sent_from"] : rq["sent_to"]] if s["tpci"] == "TDataConnected" and s["dst"] == PEER]
            if not txs:
                continue
            if txs[0]["seq"] != k % 16:
                ctx.fail("C43:outgoing:number", inp, f"data frame #{k} of the connection (request #{qi}) carried number {txs[0]['seq']}")
            for s in txs[1:]:
                if s["seq"] != txs[0]["seq"] or s["raw"] != txs[0]["raw"]:
                    ctx.fail("C43:outgoing:repetition-differs", inp, f"request #{qi}: first transmission number {txs[0]['seq']}, repetition number {s['seq']}")
                    break
            k += 1
    # (4) T_ACK only for a data frame of an open connection with the expected or preceding number
    pool: dict[tuple[str, int], list] = {}
    for rec in rx:
        if rec["kind"] == "data":
            pool.setdefault((rec["src"], rec["seq"]), []).append(rec)
    taken: set[int] = set()
    for s in sent:
        if s["tpci"] != "TAck":
            continue  # a T_NAK is not an acknowledgement
        # the acknowledged frame: the latest not yet acknowledged data frame with this number from this device
        # received up to the iteration in which the T_ACK went out (the client answers within an iteration or two)
        cands = [r for r in pool.get((s["dst"], s["seq"]), []) if r["i"] not in taken and r["tick"] <= s["tick"]]
        if not cands:
            ctx.fail("C43:ack:without-data-frame", inp, f"T_ACK({s['seq']}) sent to {s['dst']} at t={s['t']} without a received data frame to acknowledge")
            continue
        recent = [r for r in cands if r["tick"] >= s["tick"] - 3] or cands
        good = [r for r in recent if r["ref_open"] and (r["fresh"] or r["repeat"])]
        rec = good[-1] if good else recent[-1]  # several frames in one iteration: prefer the explanation that satisfies the rule
        taken.add(rec["i"])
        if not rec["ref_open"]:
            ctx.fail("C43:ack:no-open-connection", inp, f"T_ACK({s['seq']}) sent to {s['dst']} for frame #{rec['i']}: no open connection to that device at arrival")
        elif not (rec["fresh"] or rec["repeat"]) and _ambiguous_before(obs, rec, returned):
            ctx.notes["sequence_judgement_skipped_ambiguous"] = ctx.notes.get("sequence_judgement_skipped_ambiguous", 0) + 1
        elif not (rec["fresh"] or rec["repeat"]):
            ctx.fail("C43:ack:number-out-of-window", inp, f"T_ACK({s['seq']}) sent for frame #{rec['i']} while the expected number was {rec['ref_R']}")


def check_case(ctx, case) -> bool:
    try:
        obs = execute(case)
    except (BudgetExceeded, Deadlock):
        ctx.notes["inconclusive"] = ctx.notes.get("inconclusive", 0) + 1
        return False
    except Exception as e:  # noqa: BLE001
        ctx.fail(f"C43:scenario-exc:{exc_site(e)}", case, repr(e))
        return False
    judge(ctx, case, obs)
    return True


# ---------------------------------------------------------------------------
# generators

CLEAN = lambda kind: [["y", ["ack", "p", 0]], ["y", ["data", "p", 0, kind]]]  # noqa: E731

ALPHABET = {
    "a0": ["ack", "p", 0],
    "a1": ["ack", "p", 1],
    "n0": ["nak", "p", 0],
    "d0": ["data", "p", 0, "dd"],
    "dx": ["data", "p", 0, "auth"],
    "dm": ["data", "p", -1, "dd"],
    "dp": ["data", "p", 1, "dd"],
    "x": ["disc", "p"],
    "oa": ["ack", "o", 0],
    "od": ["data", "o", 0, "dd"],
}
SLOTS = [(g, k) for k in ALPHABET for g in ("s", "y")]


def is_clean(events, kind) -> bool:
    fr = [f for _, f in events]
    return fr == [["ack", "p", 0], ["data", "p", 0, kind]]


def nontrivial(case) -> bool:
    for st_ in case["steps"]:
        if st_[0] == "req" and not is_clean(st_[2], st_[1]):
            return True
        if st_[0] == "idle" and st_[1]:
            return True
    return False


def enum_case(slots) -> dict:
    ev = [[g, ALPHABET[k]] for g, k in slots]
    return {"rate": 0, "steps": [["connect"], ["req", "dd", ev], ["req", "dd", CLEAN("dd")], ["disconnect"]]}


def gap_patterns(L: int, full: bool) -> list[tuple[str, ...]]:
    """Gap patterns of the exhaustive core: all 2^L when `full`, else four representative ones
    (all later iterations; burst after the first; burst right at transmission; last two together)."""
    if full or L <= 2:
        return list(itertools.product("sy", repeat=L))
    pats = [("y",) * L, ("y",) + ("s",) * (L - 1), ("s",) * L, ("y",) * (L - 1) + ("s",)]
    return sorted(set(pats))


def _enum_shard(ctx, L: int, first, full: bool) -> None:
    n = nt = 0
    keys = list(ALPHABET)
    heads = [first] if first is not None else [None]
    for head in heads:
        for tail in itertools.product(keys, repeat=L - (1 if head else 0)):
            ks = ([head] if head else []) + list(tail)
            for pat in gap_patterns(L, full):
                slots = list(zip(pat, ks))
                case = enum_case(slots)
                check_case(ctx, case)
                n += 1
                nt += 1 if nontrivial(case) else 0
                if n % 197 == 1:
                    ctx.sample({"enum": "".join(("," if g == "y" else "") + k for g, k in slots)})
    ctx.bulk(n, nt, f"enum-L{L}")


_src = st.sampled_from(["p", "p", "p", "o"])
_rel = st.sampled_from([0, 0, 0, -1, 1, 2, 8, -2])
_typ = st.sampled_from(["dd", "auth"])
_frame = st.one_of(
    st.tuples(st.just("ack"), _src, _rel).map(list),
    st.tuples(st.just("ack"), _src, _rel).map(list),
    st.tuples(st.just("nak"), _src, _rel).map(list),
    st.tuples(st.just("data"), _src, _rel, _typ).map(list),
    st.tuples(st.just("data"), _src, _rel, _typ).map(list),
    st.tuples(st.just("data"), _src, _rel, _typ).map(list),
    st.tuples(st.just("disc"), _src).map(list),
    st.tuples(st.just("conn"), _src).map(list),
)
_gap = st.one_of(st.sampled_from(["s", "s", "y", "y", "y"]), st.sampled_from(GAPS_T))
_event = st.tuples(_gap, _frame).map(list)


@st.composite
def _events(draw, kind=None):
    ev = draw(st.lists(_event, max_size=6))
    if kind is not None and draw(st.integers(0, 2)) > 0:
        # bias: mostly well-behaved device with a few faults mixed in, so that later requests run on a live connection
        base = CLEAN(kind)
        pos = draw(st.integers(0, len(ev)))
        ev = ev[:pos] + base + ev[pos:]
        if draw(st.booleans()):
            ev = ev[:2] if len(ev) > 2 and draw(st.booleans()) else ev
    return ev


@st.composite
def cases(draw):
    steps = []
    if draw(st.integers(0, 4)) == 0:
        steps.append(["idle", draw(_events())])
    steps.append(["connect"])
    for _ in range(draw(st.integers(1, 5))):
        r = draw(st.integers(0, 9))
        if r <= 6:
            kind = draw(_typ)
            step = ["req", kind, draw(_events(kind))]
            if draw(st.integers(0, 5)) == 0:
                step.append("early")
            steps.append(step)
        elif r <= 8:
            steps.append(["idle", draw(_events())])
        else:
            steps.append(["disconnect"])
            if draw(st.booleans()):
                steps.append(["idle", draw(_events())])
            steps.append(["connect"])
    if draw(st.booleans()):
        steps.append(["disconnect"])
        if draw(st.booleans()):
            steps.append(["idle", draw(_events())])
    return {"rate": draw(st.sampled_from([0, 0, 20, 2])), "steps": steps}


def _hyp_oracle(ctx, case) -> None:
    check_case(ctx, case)
    nreq = sum(1 for s in case["steps"] if s[0] == "req")
    timed = any(not isinstance(g, str) for s in case["steps"] if s[0] in ("req", "idle") for g, _ in (s[2] if s[0] == "req" else s[1]))
    ctx.case(
        repr(case),
        nontrivial=nontrivial(case),
        cls=[f"requests={min(nreq, 4)}{'+' if nreq > 4 else ''}", "timed-gaps" if timed else "tick-gaps", f"rate={case['rate']}", "reconnect" if sum(1 for s in case["steps"] if s[0] == "connect") > 1 else "one-connection"],
        sample=case if nreq >= 2 and timed else None,
    )


def _hyp_shard(ctx, n: int) -> None:
    hyp_search(ctx, cases(), _hyp_oracle, n, shrink_cap_s=6.0 if ctx.quick else 40.0)


FOLLOWUP_PATTERNS = ["no-ack", "nak", "wrong-ack", "late-response", "response-while-idle", "ack-lost-twice-late-response"]


def _special_shard(ctx, which: str, which_kind: str = "dd", which_warm: int = 0, which_pattern: str = "") -> None:
    if which == "wrap":
        # 40 cleanly answered requests: outgoing and incoming numbers wrap modulo 16 twice; every 5th ACK is lost once (repetition)
        steps = [["connect"]]
        for i in range(40):
            kind = "dd" if i % 3 else "auth"
            ev = CLEAN(kind) if i % 5 else [[3.5, ["ack", "p", 0]], ["y", ["data", "p", 0, kind]]]
            steps.append(["req", kind, ev])
        steps.append(["disconnect"])
        for rate in (0, 20):
            case = {"rate": rate, "steps": steps}
            check_case(ctx, case)
            ctx.case(("wrap", rate), True, "wraparound-40-requests", sample={"wraparound": 40, "rate": rate})
    elif which == "noconn":
        # numbered data / control frames without any connection, before connect and after disconnect, from two devices
        n = 0
        frames = [["data", "p", 0, "dd"], ["data", "p", 5, "dd"], ["data", "o", 0, "dd"], ["ack", "p", 0], ["nak", "o", 3], ["disc", "p"], ["conn", "o"]]
        for a, b in itertools.product(frames, repeat=2):
            for g in ("s", "y"):
                for pos in ("before", "after", "only"):
                    ev = [["y", a], [g, b]]
                    if pos == "before":
                        steps = [["idle", ev], ["connect"], ["req", "dd", CLEAN("dd")], ["disconnect"]]
                    elif pos == "after":
                        steps = [["connect"], ["req", "dd", CLEAN("dd")], ["disconnect"], ["idle", ev]]
                    else:
                        steps = [["idle", ev]]
                    check_case(ctx, {"rate": 0, "steps": steps})
                    n += 1
        ctx.bulk(n, n, "no-connection-frames")
        ctx.sample({"no-connection": frames})
    elif which == "followup":
        # request A fails although its response (number n) is received - never consumed; request B of the same service follows;
        # the peer numbers correctly: B's response carries n+1, optionally preceded / replaced by a repetition of n; then request C.
        n = 0
        a_patterns = {
            "no-ack": [["req", "K", [["y", ["data", "p", 0, "K"]]]]],
            "nak": [["req", "K", [["y", ["data", "p", 0, "K"]], ["y", ["nak", "p", 0]]]]],
            "wrong-ack": [["req", "K", [["y", ["ack", "p", 1]], ["y", ["data", "p", 0, "K"]]]]],
            "late-response": [["req", "K", [["y", ["ack", "p", 0]], [6.1, ["data", "p", 0, "K"]]]]],
            "response-while-idle": [["req", "K", [["y", ["ack", "p", 0]]]], ["idle", [[0.5, ["data", "p", 0, "K"]]]]],
            "ack-lost-twice-late-response": [["req", "K", []], ["idle", [["y", ["data", "p", 0, "K"]]]]],
        }
        b_alphabet = {"a0": ["ack", "p", 0], "d0": ["data", "p", 0, "K"], "dm": ["data", "p", -1, "K"], "dp": ["data", "p", 1, "K"], "dx": ["data", "p", 0, "X"]}
        for kind, other in (("dd", "auth"), ("auth", "dd")):
            if kind != which_kind:
                continue
            def sub(x, kind=kind, other=other):
                if isinstance(x, list):
                    return [sub(y) for y in x]
                return kind if x == "K" else (other if x == "X" else x)

            for warm in (which_warm,):  # n = 0 or 1: with / without a cleanly answered request first
                for pname, pat in a_patterns.items():
                    if pname != which_pattern:
                        continue
                    for L in range(0, ctx.n(3, 4) + 1):
                        for ks in itertools.product(b_alphabet, repeat=L):
                            for g in ("y", "s") if L else ("y",):
                                ev = [["y" if i == 0 else g, b_alphabet[k]] for i, k in enumerate(ks)]
                                steps = [["connect"]] + ([["req", kind, CLEAN(kind)]] if warm else []) + sub(pat) + [sub(["req", "K", ev]), ["req", kind, CLEAN(kind)], ["disconnect"]]
                                check_case(ctx, {"rate": 0, "steps": steps})
                                n += 1
                    ctx.sample({"followup": pname, "kind": kind, "warm": warm})
        ctx.bulk(n, n, "response-received-not-consumed-then-further-requests")
    elif which == "timed":
        # one or two frames at every pair of instants around the ACK / response timeouts
        n = 0
        times = [0.5, 2.9, 3.0, 3.1, 5.9, 6.0, 6.1, 8.9, 9.0, 9.1, 11.9, 12.0, 12.1] if not ctx.quick else [2.9, 3.0, 3.1, 6.0, 9.0, 9.1]
        for t1 in times:
            for k1 in ("a0", "d0", "x", "n0", "a1"):
                for t2 in (None, 0.0, 0.1, 2.9, 3.0, 6.0):
                    for k2 in ("a0", "d0", "x", "dm"):
                        ev = [[t1, ALPHABET[k1]]]
                        if t2 is not None:
                            ev.append(["s" if t2 == 0.0 else t2, ALPHABET[k2]])
                        elif k2 != "a0":
                            continue
                        check_case(ctx, {"rate": 0, "steps": [["connect"], ["req", "dd", ev], ["req", "dd", CLEAN("dd")], ["disconnect"]]})
                        n += 1
        ctx.bulk(n, n, "timeout-coincident")
        ctx.sample({"timeout-coincident-times": times})


def run(ctx) -> None:
    L = ctx.n(3, 4)
    jobs = []
    for length in range(0, L + 1):
        full = length <= ctx.n(2, 3)
        if length <= 1:
            jobs.append((length, None, full))
        else:
            for k in ALPHABET:
                jobs.append((length, k, full))
    import xknx.management.management  # noqa: F401  (import before forking)

    import vk.simbus  # noqa: F401
    import vk.xharness  # noqa: F401

    parallel(ctx, _enum_shard, jobs, procs=ctx.n(6, 12))
    procs = ctx.n(6, 12)  # cases cost ~1 ms; more workers mostly add fork / scheduling overhead on a shared box
    follow = [("followup", k, w, p) for k in (("dd",) if ctx.quick else ("dd", "auth")) for w in (0, 1) for p in FOLLOWUP_PATTERNS]
    parallel(ctx, _special_shard, [("wrap",), ("noconn",), ("timed",)] + follow, procs=procs)
    parallel(ctx, _hyp_shard, [(ctx.n(100, 2500),)] * 16, procs=ctx.n(6, 12))
    ctx.exhaustive = False
    ctx.notes["exhaustive_core"] = (
        f"all sequences of <= {L} received frames over {len(ALPHABET)} frame kinds around the first request; every same-iteration/later-iteration gap pattern "
        f"up to length {ctx.n(2, 3)}, four representative gap patterns at length {L}"
    )
    ctx.notes["time_bound_s"] = "1/rate_limit + 12"


def replay(ctx, case) -> None:
    check_case(ctx, case)
