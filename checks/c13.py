"""C13 - cEMI link frames round-trip and carry the correct frame type.

(a) built frames: telegram spec -> Telegram -> CEMILData.init_from_telegram (+ generated
    control flags) -> CEMIFrame.to_knx() compared with the independent reference encoder
    (vk/ref/cemi_layout.py) and parsed back; NPDU > 254 / hop count outside 0..7 must be
    refused with ConversionError.
(b) received frames: byte strings of the C12 space that parse (reserved Ctrl1 bit clear)
    -> to_knx() must equal the received octets except for the derived frame-type bit and
    whatever the application-layer codec itself normalises (reserved APCI bits).
"""

from __future__ import annotations

from vk.core import _h, exc_site
from vk.engine import hyp_search, parallel
from vk.ref import cemi_layout as L
from vk.strategies import cemi as S
from xknx.cemi import CEMIFrame, CEMILData, CEMIMessageCode
from xknx.cemi.cemi_frame import CEMIInfo
from xknx.cemi.flags import CEMIFlags, CEMIFrameFormat, CEMIFrameType, CEMIPriority
from xknx.dpt import DPTArray, DPTBinary
from xknx.exceptions import ConversionError, CouldNotParseCEMI, UnsupportedCEMIMessage
from xknx.telegram import GroupAddress, IndividualAddress, Telegram, apci, tpci as T

PROPERTY = "C13"
LEVEL = "exploration"
TECHNIQUE = "property-based testing (Hypothesis) against an independent reference encoder + encode/decode round trip + metamorphic re-serialisation"
RULE = (
    "(a) generated frame specs: destination kind {group, broadcast, individual} x matching TPCI kind (all 9, seq 0..15) x "
    "payload {GroupValueWrite/Response with 0..254 data octets biased to NPDU 14/15/16/253/254/255, 6-bit value, one "
    "instance of every APCI service class} x priority x repeat x system-broadcast x ack x confirm x hop {-1,0..7,8,15} x "
    "3 message codes x 0..8 additional-info octets; and every NPDU length 1..255 once per destination kind (enumerated). "
    "(b) frames of the C12 generators that parse as L_Data with the reserved Ctrl1 bit clear; plus frames whose octet count "
    "disagrees with the NPDU length field in both directions, for data TPDUs and for every control TPCI (T_Connect, T_Disconnect, "
    "T_ACK/T_NAK seq 0..15: length 0 with 1..4 surplus octets, length n>0 with n / fewer / more octets), enumerated and generated: "
    "a frame the parser accepts must be reproduced by to_knx() including its length, so these must be rejected. "
    "History step for every frame of (a) and (b) that parses: the flags of the parsed frame are changed in place (hop count, priority, "
    "repeat, system broadcast, ack, confirm), then the same octets and a different frame with the same control field are parsed: "
    "both must show the flags on the wire (frames share no state). "
    "Non-trivial = NPDU length in {14,15,16,253,254,255} or any control flag / hop count / additional info different "
    "from the defaults, or (b) any parsed received frame."
)
ASSUMPTIONS = [
    "reference layout (EMI_IMI 4.1.5.3 / TP1 2.2): Ctrl1 = FT r R SB PP A C with FT 1=standard, R 1=do-not-repeat, SB 1=broadcast; "
    "Ctrl2 = AT HHH EEEE; NPDU length = octets after the TPCI octet; standard frame iff length <= 15; maximum 254",
    "APDU octets of GroupValueWrite/Response are computed independently (00 80|v / 00 80 data..); for the other service "
    "instances the APDU is taken from APCI.to_knx() (judged by C05/C06, not here)",
    "received frames: the application-layer part of the expected re-serialisation is APCI.from_knx(apdu).to_knx() "
    "(metamorphic: the cEMI layer must add no change of its own); frames whose APCI object refuses to re-encode are only counted",
]
LEVEL_TEXT = "no generated frame spec / received frame violates round trip, reference-encoder equality, FT/AT derivation or the rejection rules"
LEVEL_NOTE = "sampling (every NPDU length 1..255 enumerated per destination kind); trusted: vk/ref/cemi_layout.py (self-tested on literal frames)"

TPCI_BUILD = {
    "TDataGroup": lambda s: T.TDataGroup(),
    "TDataBroadcast": lambda s: T.TDataBroadcast(),
    "TDataTagGroup": lambda s: T.TDataTagGroup(),
    "TDataIndividual": lambda s: T.TDataIndividual(),
    "TDataConnected": lambda s: T.TDataConnected(s),
    "TConnect": lambda s: T.TConnect(),
    "TDisconnect": lambda s: T.TDisconnect(),
    "TAck": lambda s: T.TAck(s),
    "TNak": lambda s: T.TNak(s),
}


def ref_tpci(kind: str, seq: int) -> int:
    """TPCI octet per Transport Layer §2 (independent of xknx)."""
    return {
        "TDataGroup": 0x00,
        "TDataBroadcast": 0x00,
        "TDataIndividual": 0x00,
        "TDataTagGroup": 0x04,
        "TDataConnected": 0x40 | seq << 2,
        "TConnect": 0x80,
        "TDisconnect": 0x81,
        "TAck": 0xC2 | seq << 2,
        "TNak": 0xC3 | seq << 2,
    }[kind]


def make_payload(p):
    """payload spec -> (APCI object, reference APDU octets with TPCI bits clear)."""
    kind, arg = p[0], p[1]
    if kind in ("gvw", "gvr"):
        cls, code = (apci.GroupValueWrite, 0x80) if kind == "gvw" else (apci.GroupValueResponse, 0x40)
        data = bytes(arg)
        if not data:
            return cls(DPTBinary(0)), bytes([0x00, code])
        return cls(DPTArray(tuple(data))), bytes([0x00, code]) + data
    if kind == "gvw6":
        v = bytes(arg)[0] & 0x3F
        return apci.GroupValueWrite(DPTBinary(v)), bytes([0x00, 0x80 | v])
    if kind == "svc":
        obj = S.service_instances()[int(arg) % len(S.service_instances())]
        return obj, bytes(obj.to_knx())
    raise ValueError(kind)


def build_frame(spec):
    group = spec["dst_kind"] in ("group", "broadcast")
    dst = GroupAddress(spec["dst"]) if group else IndividualAddress(spec["dst"])
    tp = TPCI_BUILD[spec["tpci"]](spec["seq"])
    payload, ref_apdu = (None, None) if spec["payload"] is None else make_payload(spec["payload"])
    tg = Telegram(destination_address=dst, payload=payload, source_address=IndividualAddress(spec["src"]), tpci=tp)
    data = CEMILData.init_from_telegram(tg)
    if spec.get("flag_mode") == "assign":
        # flags set by attribute assignment on the built frame, as callers do (e.g. `cemi.data.flags.hop_count = 5`)
        data.flags.priority = CEMIPriority(spec["priority"])
        data.flags.repeat_on_error = spec["repeat"]
        data.flags.system_broadcast = spec["system_broadcast"]
        data.flags.acknowledge_request = spec["ack"]
        data.flags.confirm_error = spec["confirm_error"]
        data.flags.hop_count = spec["hop"]
    else:
        data.flags = CEMIFlags(
            priority=CEMIPriority(spec["priority"]),
            repeat_on_error=spec["repeat"],
            system_broadcast=spec["system_broadcast"],
            acknowledge_request=spec["ack"],
            confirm_error=spec["confirm_error"],
            hop_count=spec["hop"],
        )
    frame = CEMIFrame(code=CEMIMessageCode(spec["code"]), info=CEMIInfo(bytes(spec["addinfo"])), data=data)
    return frame, ref_apdu


def is_nontrivial(spec, npdu_len: int) -> bool:
    return (
        npdu_len in (14, 15, 16, 253, 254, 255)
        or spec["priority"] != 3
        or spec["repeat"]
        or spec["system_broadcast"]
        or spec["ack"]
        or spec["confirm_error"]
        or spec["hop"] != 6
        or bool(spec["addinfo"])
    )


def _oracle_built_single(ctx, spec) -> None:
    spec = dict(spec)
    if isinstance(spec.get("payload"), list):
        spec["payload"] = tuple(spec["payload"])
    try:
        frame, ref_apdu = build_frame(spec)
    except ConversionError as e:
        # refused while building the frame: a rejection, fine only for an out-of-range hop count
        if 0 <= spec["hop"] <= 7:
            ctx.fail(f"C13:valid-rejected-at-build:{exc_site(e)}", spec, f"building a valid frame was refused: {e}")
        ctx.case(repr(sorted(spec.items())), nontrivial=True, cls="rejected-at-build")
        return
    npdu_len = 0 if ref_apdu is None else len(ref_apdu) - 1
    group = spec["dst_kind"] in ("group", "broadcast")
    must_reject = npdu_len > 254 or not 0 <= spec["hop"] <= 7
    pk = "ctl" if spec["payload"] is None else spec["payload"][0]
    ctx.case(
        repr(sorted(spec.items())),
        nontrivial=is_nontrivial(spec, npdu_len),
        cls=(f"dst:{spec['dst_kind']}", f"tpci:{spec['tpci']}", "reject-expected" if must_reject else ("standard" if npdu_len <= 15 else "extended"), f"payload:{pk}"),
    )
    if npdu_len in (15, 16, 254, 255):
        ctx.sample({"npdu_len": npdu_len, "tpci": spec["tpci"], "dst_kind": spec["dst_kind"], "hop": spec["hop"], "prio": spec["priority"]})
    try:
        raw = frame.to_knx()
    except ConversionError as e:
        if not must_reject:
            ctx.fail(f"C13:valid-rejected:{exc_site(e)}", spec, f"to_knx refused a valid frame (NPDU {npdu_len}, hop {spec['hop']}): {e}")
        return
    except Exception as e:  # noqa: BLE001
        what = "too-long" if npdu_len > 254 else ("hop" if must_reject else "valid")
        ctx.fail(f"C13:serialise-exc:{what}:{exc_site(e)}", spec, f"to_knx raised {type(e).__name__}: {e} (NPDU {npdu_len}, hop {spec['hop']})")
        return
    if must_reject:
        what = "npdu-too-long" if npdu_len > 254 else "hop-count"
        ctx.fail(f"C13:invalid-accepted:{what}", spec, f"to_knx accepted NPDU length {npdu_len}, hop {spec['hop']}: {raw.hex()[:60]}")
        return
    expected = L.encode_ldata(
        code=spec["code"], addinfo=bytes(spec["addinfo"]), repeat=spec["repeat"], system_broadcast=spec["system_broadcast"],
        priority=spec["priority"], ack=spec["ack"], confirm_error=spec["confirm_error"], group=group, hop_count=spec["hop"],
        eff=0, src=spec["src"], dst=spec["dst"], tpci=ref_tpci(spec["tpci"], spec["seq"]), apdu=ref_apdu,
    )  # fmt: skip
    b = 2 + len(spec["addinfo"])
    if raw != expected:
        field = first_diff_field(raw, expected)
        ctx.fail(f"C13:bytes-differ-from-reference:{field}", spec, f"to_knx {raw.hex()} != reference {expected.hex()} (first differing field: {field})")
    else:
        # explicit statement clauses (implied by reference equality; kept for a readable bucket)
        if bool(raw[b] & 0x80) != (npdu_len <= 15):
            ctx.fail("C13:frame-type-bit", spec, f"FT bit {raw[b] >> 7} with NPDU length {npdu_len}")
        if bool(raw[b + 1] & 0x80) != group:
            ctx.fail("C13:address-type-bit", spec, f"AT bit {raw[b + 1] >> 7} for {spec['dst_kind']} destination")
    # parse back
    try:
        back = CEMIFrame.from_knx(raw)
    except Exception as e:  # noqa: BLE001
        ctx.fail(f"C13:roundtrip-parse-exc:{exc_site(e)}", spec, f"from_knx(to_knx()) raised {type(e).__name__}: {e}")
        return
    d, o = back.data, frame.data
    probs = []
    if back.code is not frame.code:
        probs.append("code")
    if back.info.raw != bytes(spec["addinfo"]):
        probs.append("addinfo")
    if not isinstance(d, CEMILData):
        ctx.fail("C13:roundtrip-neq:data-class", spec, repr(back))
        return
    if type(d.src_addr) is not IndividualAddress or d.src_addr.raw != spec["src"]:
        probs.append("src")
    if type(d.dst_addr) is not type(o.dst_addr) or d.dst_addr.raw != spec["dst"]:
        probs.append("dst")
    if type(d.tpci) is not type(o.tpci) or d.tpci.sequence_number != o.tpci.sequence_number:
        probs.append("tpci")
    if d.payload != o.payload or type(d.payload) is not type(o.payload):
        probs.append("payload")
    f = d.flags
    for name, want in (
        ("priority", CEMIPriority(spec["priority"])), ("repeat_on_error", spec["repeat"]), ("system_broadcast", spec["system_broadcast"]),
        ("acknowledge_request", spec["ack"]), ("confirm_error", spec["confirm_error"]), ("hop_count", spec["hop"]),
        ("frame_format", CEMIFrameFormat.STANDARD),
        ("frame_type", CEMIFrameType.STANDARD if npdu_len <= 15 else CEMIFrameType.EXTENDED),
    ):  # fmt: skip
        if getattr(f, name) != want:
            probs.append("flag-" + name)
    tg = d.telegram()
    if tg.destination_address != o.dst_addr or tg.source_address != o.src_addr or tg.payload != o.payload or tg.tpci != o.tpci:
        probs.append("telegram")
    for p in probs:
        ctx.fail(f"C13:roundtrip-neq:{p}", spec, f"{frame!r} -> {raw.hex()} -> {back!r}")


FLAG_FIELDS = ("priority", "repeat_on_error", "system_broadcast", "acknowledge_request", "confirm_error", "hop_count", "frame_type", "frame_format")


def _wire_flags(d) -> tuple:
    """Flag values as on the wire (reference decoder), in FLAG_FIELDS order."""
    return (d["priority"], d["repeat"], d["system_broadcast"], d["ack"], d["confirm_error"], d["hop_count"], 1 if d["standard"] else 0, d["eff"])


def _parsed_flags(f) -> tuple:
    return tuple(int(getattr(f, n)) if n in ("priority", "hop_count", "frame_type", "frame_format") else bool(getattr(f, n)) for n in FLAG_FIELDS)


def history_flags_isolation(ctx, raw: bytes, origin: str) -> None:
    """Frames are independent objects: parse frame 1, change its flags IN PLACE (as a forwarder decrementing the hop
    count or user code assigning cemi.data.flags.x does), then parse (a) the same octets again and (b) a different
    frame carrying the same control field: both must show the flags that are on the wire (reference decoder) and
    re-serialise to them, whatever was done to frame 1."""
    try:
        d = L.decode_ldata(raw)
        f1 = CEMIFrame.from_knx(raw)
    except Exception:  # noqa: BLE001 - judged by the single-frame oracles
        return
    if not isinstance(f1.data, CEMILData) or d["reserved"] or d["length"] > L.MAX_L:
        return
    wire = _wire_flags(d)
    if _parsed_flags(f1.data.flags) != wire:
        return  # already wrong in isolation: reported by the single-frame oracle
    ctx.classes["history:flags-isolation"] += 1
    fl = f1.data.flags
    fl.hop_count = (fl.hop_count + (1 if fl.hop_count < 7 else -1)) if d["hop_count"] % 2 else (fl.hop_count - 1 if fl.hop_count else 1)
    fl.priority = CEMIPriority((int(fl.priority) + 1 + d["src"] % 3) % 4)
    fl.repeat_on_error = not fl.repeat_on_error
    fl.system_broadcast = not fl.system_broadcast
    fl.acknowledge_request = not fl.acknowledge_request
    fl.confirm_error = not fl.confirm_error
    b = d["base"]
    # a different frame with the same control field: other addresses, shortest data TPDU (valid for both address types)
    other = bytes([d["code"], 0]) + raw[b : b + 2] + ((d["src"] + 1) & 0xFFFF).to_bytes(2, "big") + (d["dst"] ^ 0x0100 or 1).to_bytes(2, "big") + b"\x01\x00\x81"
    for what, octets in (("same-octets-again", raw), ("other-frame-same-control-field", other)):
        try:
            f2 = CEMIFrame.from_knx(octets)
            d2 = L.decode_ldata(octets)
        except Exception as e:  # noqa: BLE001
            if what == "same-octets-again":
                ctx.fail(f"C13:history:second-parse-exc:{exc_site(e)}", {"raw": raw, "origin": origin}, f"second parse of {octets.hex()} raised {type(e).__name__}: {e}")
            continue
        got = _parsed_flags(f2.data.flags)
        want = _wire_flags(d2)
        shared = f2.data.flags is f1.data.flags
        if got != want or shared:
            diff = [n for n, g, w in zip(FLAG_FIELDS, got, want) if g != w]
            ctx.fail(
                "C13:received:flags-shared-between-frames",
                {"raw": raw, "origin": origin},
                f"{what}: after the flags of a previously parsed frame with control field {raw[b:b+2].hex()} were changed in place, "
                f"{octets.hex()} parses to flags {f2.data.flags} (differs from the wire in {diff}; same object as frame 1: {shared})",
            )
            continue
        try:
            again = f2.to_knx()
        except Exception:  # noqa: BLE001 - APCI re-encode problems: single-frame oracle / C05
            continue
        hb = d2["base"]
        if again[hb : hb + 2] != bytes([octets[hb] & 0x7F | again[hb] & 0x80, octets[hb + 1]]):
            ctx.fail("C13:received:flags-shared-between-frames", {"raw": raw, "origin": origin}, f"{what}: {octets.hex()} re-serialises to control field {again[hb:hb+2].hex()}")


def oracle_built(ctx, spec) -> None:
    _oracle_built_single(ctx, spec)
    sp = dict(spec)
    if isinstance(sp.get("payload"), list):
        sp["payload"] = tuple(sp["payload"])
    try:
        raw = build_frame(sp)[0].to_knx()
    except Exception:  # noqa: BLE001 - rejections / errors are judged above
        return
    history_flags_isolation(ctx, raw, "built")


def oracle_received(ctx, raw: bytes) -> None:
    _oracle_received_single(ctx, raw)
    history_flags_isolation(ctx, raw, "received")


def first_diff_field(raw: bytes, expected: bytes) -> str:
    if len(raw) != len(expected):
        return "length"
    try:
        lab = L.classify_bits(expected)
    except Exception:  # noqa: BLE001
        return "?"
    for i in range(len(raw)):
        if raw[i] != expected[i]:
            x = raw[i] ^ expected[i]
            for bit in range(8):
                if x & (0x80 >> bit):
                    return lab[8 * i + bit]
    return "?"


# ---------------------------------------------------------------------------


def _oracle_received_single(ctx, raw: bytes) -> None:
    try:
        frame = CEMIFrame.from_knx(raw)
    except (CouldNotParseCEMI, UnsupportedCEMIMessage):
        ctx.case(None, nontrivial=False, cls="rx:rejected")
        return
    except Exception:  # noqa: BLE001 - C12's business
        ctx.case(None, nontrivial=False, cls="rx:undeclared-exc(C12)")
        return
    if not isinstance(frame.data, CEMILData):
        ctx.case(None, nontrivial=False, cls="rx:not-ldata")
        return
    try:
        d = L.decode_ldata(raw)
    except L.RefError as e:
        ctx.case(raw, nontrivial=True, cls="rx:parsed-but-reference-rejects")
        if "length field" in str(e):
            # octet count after the TPCI octet disagrees with the NPDU length field: such a frame cannot be
            # reproduced by to_knx() (length and octets are derived from the payload), so it must be rejected
            kind = "control" if isinstance(frame.data.tpci, T.TPCI) and frame.data.tpci.control else "data"
            try:
                again = frame.to_knx().hex()
            except Exception as e2:  # noqa: BLE001
                again = f"<{type(e2).__name__}>"
            b = 2 + raw[1]
            ctx.fail(
                f"C13:received:accepted-length-mismatch:{kind}",
                raw,
                f"NPDU length octet {raw[b + 6]} but {len(raw) - (b + 8)} octet(s) follow the TPCI octet; parsed as {repr(frame.data)[:160]}; "
                f"received {raw.hex()} re-serialises to {again}",
            )
        else:
            ctx.fail("C13:received:accepted-malformed-layout", raw, f"xknx parsed a frame the reference layout rejects ({e}): {frame!r}")
        return
    if d["control"] and d["length"] != 0:
        ctx.case(raw, nontrivial=True, cls="rx:control-with-length")
        ctx.fail("C13:received:accepted-length-mismatch:control-npdu-length-nonzero", raw, f"control TPDU with NPDU length {d['length']} accepted: {repr(frame.data)[:160]} from {raw.hex()}")
        return
    if d["length"] > L.MAX_L:
        # 255 is not a length but the escape code of the LG field (TP1 2.2.5.6; xknx.cemi.const.MAX_NPDU_LENGTH)
        ctx.case(raw, nontrivial=True, cls="rx:escape-length-255")
        ctx.fail(
            "C13:received:escape-length-255-accepted",
            raw,
            f"frame with NPDU length octet 0xFF ({len(raw)} octets) parsed as a {d['length']}-octet NPDU: {repr(frame)[:200]}; "
            "to_knx() of the parsed frame raises ConversionError (APDU too long)",
        )
        return
    if d["reserved"]:
        ctx.case(None, nontrivial=False, cls="rx:reserved-bit-set(skipped)")
        return
    ctx.case(raw, nontrivial=True, cls=("rx:parsed", "rx:control" if d["control"] else "rx:" + type(frame.data.payload).__name__))
    # parsed fields agree with the reference decoder
    x = frame.data
    got = (
        frame.info.raw, x.src_addr.raw, x.dst_addr.raw, isinstance(x.dst_addr, GroupAddress), int(x.flags.priority), x.flags.repeat_on_error,
        x.flags.system_broadcast, x.flags.acknowledge_request, x.flags.confirm_error, x.flags.hop_count, int(x.flags.frame_format),
        x.flags.frame_type is CEMIFrameType.STANDARD, x.tpci.to_knx(),
    )  # fmt: skip
    want = (
        d["addinfo"], d["src"], d["dst"], d["group"], d["priority"], d["repeat"], d["system_broadcast"], d["ack"], d["confirm_error"],
        d["hop_count"], d["eff"], d["standard"], d["tpci"],
    )  # fmt: skip
    names = ("addinfo", "src", "dst", "at", "priority", "repeat", "sb", "ack", "confirm", "hop", "eff", "ft", "tpci")
    for n, g, w in zip(names, got, want):
        if g != w:
            ctx.fail(f"C13:received:field-differs-from-reference:{n}", raw, f"{n}: parsed {g!r}, reference {w!r} in {raw.hex()}")
    apdu_re = None
    if not d["control"]:
        try:
            apdu_re = bytes(apci.APCI.from_knx(d["apdu"]).to_knx())
        except Exception:  # noqa: BLE001 - APCI object that does not re-encode: C05/C06
            ctx.classes["rx:apci-refuses-reencode(skipped)"] += 1
            return
        if apdu_re[0] & 0xFC:
            ctx.classes["rx:apci-sets-tpci-bits(skipped)"] += 1
            return
    try:
        again = frame.to_knx()
    except Exception as e:  # noqa: BLE001
        ctx.fail(f"C13:reserialise-exc:{exc_site(e)}", raw, f"to_knx of a received frame raised {type(e).__name__}: {e}")
        return
    expected = L.encode_ldata(
        code=d["code"], addinfo=d["addinfo"], repeat=d["repeat"], system_broadcast=d["system_broadcast"], priority=d["priority"],
        ack=d["ack"], confirm_error=d["confirm_error"], group=d["group"], hop_count=d["hop_count"], eff=d["eff"], src=d["src"],
        dst=d["dst"], tpci=d["tpci"], apdu=apdu_re,
    )  # fmt: skip
    if again != expected:
        field = first_diff_field(again, expected)
        ctx.fail(f"C13:reserialise-differs:{field}", raw, f"received {raw.hex()} re-serialised {again.hex()} expected {expected.hex()}")
    elif apdu_re is not None and len(apdu_re) != len(d["apdu"]):
        ctx.classes["rx:apci-normalised-length"] += 1
    # and the only cEMI-level difference to the received octets is the FT bit
    b = d["base"]
    if again[: b + 6] != raw[:b] + bytes([raw[b] & 0x7F | again[b] & 0x80]) + raw[b + 1 : b + 6]:
        ctx.fail("C13:reserialise-differs:header", raw, f"received {raw.hex()} re-serialised {again.hex()}")


# ---------------------------------------------------------------------------


def _shard_built(ctx, n: int) -> None:
    ns = len(S.service_instances())
    hyp_search(ctx, S.telegram_specs(n_services=ns), oracle_built, n)


def _shard_received(ctx, n: int) -> None:
    valid = [bytes(x.to_knx()) for x in S.service_instances()]
    hyp_search(ctx, S.length_mismatch_ldata_frames(valid), oracle_received_counting_mismatch, n // 2, seed_salt=3)
    hyp_search(ctx, S.plausible_ldata_frames(valid), oracle_received, n, seed_salt=4)
    hyp_search(ctx, S.wellformed_ldata_frames(), oracle_received, n // 2, seed_salt=5)
    hyp_search(ctx, S.raw_cemi_frames(), oracle_received, n // 4, seed_salt=6)


def _shard_both(ctx, n_built: int, n_received: int) -> None:
    _shard_built(ctx, n_built)
    _shard_received(ctx, n_received)


def oracle_received_counting_mismatch(ctx, raw: bytes) -> None:
    """oracle_received for frames built to have a length disagreement: those count as non-trivial even when
    (correctly) rejected, since rejection is the behaviour being checked."""
    before = ctx.classes["rx:rejected"]
    oracle_received(ctx, raw)
    if ctx.classes["rx:rejected"] == before + 1:
        ctx.nontrivial.add(_h(raw))
        ctx.classes["rx:length-mismatch-rejected"] += 1
    ctx.classes["rx:length-mismatch-input"] += 1


CONTROL_TPCI_OCTETS = [0x80, 0x81] + [0xC2 | s << 2 for s in range(16)] + [0xC3 | s << 2 for s in range(16)]


def enumerate_length_mismatch(ctx) -> None:
    """Received frames whose octet count disagrees with the NPDU length field, control AND data TPDUs,
    both directions; plus control TPDUs announcing a length > 0. Deterministic."""
    n = 0
    hdr_ind = bytes.fromhex("b06010fa10ff")  # Ctrl1 Ctrl2 src dst(individual)
    hdr_grp = bytes.fromhex("bce010fa0901")
    tails = [b"\x00", b"\x80", b"\x00\x00", b"\x01\x02\x03", b"\x00\x00\x00\x00", b"\xff\xfe\xfd\xfc"]
    for code in (0x29, 0x11, 0x2E):
        for t in CONTROL_TPCI_OCTETS:
            for add in (b"", b"\x03\x01\xaa"):
                pre = bytes([code, len(add)]) + add + hdr_ind
                frames = [pre + b"\x00" + bytes([t]) + tail for tail in tails]  # length 0, surplus octets
                frames += [pre + bytes([len(tail)]) + bytes([t]) + tail for tail in tails]  # control TPDU with length n > 0, n octets
                frames += [pre + bytes([k]) + bytes([t]) for k in (1, 2, 15, 254)]  # length n > 0, nothing follows
                frames += [pre + bytes([2]) + bytes([t]) + b"\x00", pre + bytes([1]) + bytes([t]) + b"\x00\x00"]
                for f in frames:
                    oracle_received_counting_mismatch(ctx, f)
                    n += 1
    apdus = [bytes(x.to_knx()) for x in S.service_instances()] + [b"\x00\x80", b"\x00\x81", b"\x00\x80\x01", b"\x00\x80" + bytes(14), b"\x00\x80" + bytes(15), b"\x00\x40\x00\x00"]
    for hdr, tp in ((hdr_grp, 0x00), (hdr_ind, 0x00), (hdr_ind, 0x44), (hdr_grp, 0x04)):
        for apdu in apdus:
            true_len = len(apdu) - 1
            tpdu = bytes([tp | apdu[0]]) + apdu[1:]
            pre = b"\x29\x00" + hdr
            frames = [pre + bytes([max(0, min(255, true_len + dl))]) + tpdu for dl in (-2, -1, 1, 2) if 0 <= true_len + dl <= 255 and dl]
            frames += [pre + bytes([true_len]) + tpdu + extra for extra in (b"\x00", b"\x00\x00", b"\x7f")]  # surplus octets
            frames += [pre + bytes([true_len]) + tpdu[:-k] for k in (1, 2) if len(tpdu) - k >= 1]  # missing octets
            for f in frames:
                oracle_received_counting_mismatch(ctx, f)
                n += 1
    ctx.notes["length_mismatch_frames_enumerated"] = n


def enumerate_lengths(ctx) -> None:
    """Every NPDU length 1..255 x destination kind, default flags, and the flag cube at the FT boundary."""
    base = {"code": 0x11, "addinfo": b"", "src": 0x1101, "seq": 0, "priority": 3, "repeat": False, "system_broadcast": False,
            "ack": False, "confirm_error": False, "hop": 6}  # fmt: skip
    kinds = (("group", 0x0801, "TDataGroup"), ("broadcast", 0, "TDataBroadcast"), ("individual", 0x1102, "TDataIndividual"),
             ("individual", 0x1102, "TDataConnected"), ("group", 1, "TDataTagGroup"))  # fmt: skip
    for dk, dst, tp in kinds:
        for n in range(0, 255):
            oracle_built(ctx, {**base, "dst_kind": dk, "dst": dst, "tpci": tp, "seq": 9 if tp == "TDataConnected" else 0, "payload": ("gvw", bytes([n & 0xFF]) * n)})
    for n in (14, 15):  # NPDU 15 / 16
        for prio in range(4):
            for bits in range(16):
                for hop in (0, 7):
                    for code in (0x11, 0x29, 0x2E):
                        oracle_built(ctx, {**base, "code": code, "dst_kind": "group", "dst": 0xFFFF, "tpci": "TDataGroup", "payload": ("gvr", bytes(n)),
                                           "priority": prio, "repeat": bool(bits & 1), "system_broadcast": bool(bits & 2), "ack": bool(bits & 4),
                                           "confirm_error": bool(bits & 8), "hop": hop})  # fmt: skip
    # hop count boundary sweep, flags set through the constructor and by assignment on the built frame
    for hop in (-8, -1, 0, 1, 7, 8, 9, 15, 16, 255):
        for mode in ("ctor", "assign"):
            for dk, dst, tp in kinds[:3]:
                oracle_built(ctx, {**base, "dst_kind": dk, "dst": dst, "tpci": tp, "payload": ("gvw", b"\x01"), "hop": hop, "flag_mode": mode})
    for i in range(len(S.service_instances())):
        for dk, dst, tp in kinds[:4]:
            oracle_built(ctx, {**base, "dst_kind": dk, "dst": dst, "tpci": tp, "seq": 3, "payload": ("svc", i)})


def selftest(ctx) -> None:
    L.selftest()
    assert len(S.service_instances()) >= 10, len(S.service_instances())
    assert ref_tpci("TDataConnected", 5) == 0x54 and ref_tpci("TNak", 15) == 0xFF


def run(ctx) -> None:
    enumerate_lengths(ctx)
    enumerate_length_mismatch(ctx)
    ctx.notes["service_instances"] = len(S.service_instances())
    shards = ctx.n(8, 16)
    parallel(ctx, _shard_both, [(ctx.n(500, 12000), ctx.n(400, 10000))] * shards)


def replay(ctx, case) -> None:
    if isinstance(case, (bytes, bytearray)):
        oracle_received(ctx, bytes(case))
    elif isinstance(case, dict) and "raw" in case:
        oracle_received(ctx, bytes(case["raw"]))
    else:
        oracle_built(ctx, case)
