"""C03 - transport-layer control octets decode only to PDUs that re-encode to them.

Exhaustive: 256 octets x {individual, group, broadcast} against a reference table
written from KNX 03_03_04 Transport Layer §2 (TPDU coding), and every constructible
PDU (sequence numbers 0..15) through encode -> decode.
"""

from __future__ import annotations

from xknx.exceptions import ConversionError
from xknx.telegram import tpci as T

PROPERTY = "C03"
LEVEL = "exploration"
RULE = (
    "exhaustive enumeration of 256 TPCI octets x 3 destination kinds against an "
    "independent reference table, plus every constructible PDU (seq 0..15) x matching "
    "destination kinds; non-trivial = every (octet,kind) pair other than the plain "
    "T_Data_Group/Broadcast/Individual octets 0..3 and every built PDU; distinct by construction"
)
ASSUMPTIONS = [
    "reference TPCI table written from Transport Layer §2: T_Data_* 000000xx, "
    "T_Data_Tag_Group 000001xx (group only), T_Data_Connected 01SSSSxx, T_Connect 0x80, "
    "T_Disconnect 0x81, T_ACK 11SSSS10, T_NAK 11SSSS11 (connection-oriented ones individual only)",
]

KINDS = ("individual", "group", "broadcast")


def ref_decode(octet: int, kind: str):
    """Reference: (class name, seq, mask) or None if undefined for that destination kind."""
    hi6 = octet >> 2
    if kind in ("group", "broadcast"):
        if hi6 == 0:
            return ("TDataBroadcast" if kind == "broadcast" else "TDataGroup", 0, 0xFC)
        if hi6 == 1:
            return ("TDataTagGroup", None, 0xFC)
        return None
    # individual destination
    if hi6 == 0:
        return ("TDataIndividual", 0, 0xFC)
    if octet & 0xC0 == 0x40:
        return ("TDataConnected", (octet >> 2) & 0xF, 0xFC)
    if octet == 0x80:
        return ("TConnect", 0, 0xFF)
    if octet == 0x81:
        return ("TDisconnect", 0, 0xFF)
    if octet & 0xC3 == 0xC2:
        return ("TAck", (octet >> 2) & 0xF, 0xFF)
    if octet & 0xC3 == 0xC3:
        return ("TNak", (octet >> 2) & 0xF, 0xFF)
    return None


def selftest(ctx) -> None:
    assert ref_decode(0x00, "group")[0] == "TDataGroup"
    assert ref_decode(0x00, "broadcast")[0] == "TDataBroadcast"
    assert ref_decode(0x43, "individual") == ("TDataConnected", 0, 0xFC)
    assert ref_decode(0xC2, "individual") == ("TAck", 0, 0xFF)
    assert ref_decode(0xFF, "individual") == ("TNak", 15, 0xFF)
    assert ref_decode(0x82, "individual") is None
    assert ref_decode(0x80, "group") is None
    n_def = sum(ref_decode(o, k) is not None for o in range(256) for k in KINDS)
    assert n_def == 4 + 64 + 2 + 16 + 16 + 2 * 8, n_def


def check_octet(ctx, octet: int, kind: str) -> None:
    inp = {"octet": octet, "kind": kind}
    exp = ref_decode(octet, kind)
    try:
        pdu = T.TPCI.resolve(octet, dst_is_group_address=kind != "individual", dst_is_zero=kind == "broadcast")
    except ConversionError:
        pdu = None
    except Exception as e:  # noqa: BLE001
        ctx.fail(f"C03:decode-exc:{type(e).__name__}", inp, repr(e))
        return
    if exp is None:
        if pdu is not None:
            # undefined code read as another PDU
            ctx.fail(f"C03:undefined-accepted:{type(pdu).__name__}:{kind}", inp, f"undefined TPCI {octet:#04x} for {kind} destination decoded as {pdu!r} (re-encodes {pdu.to_knx():#04x})")
        return
    name, seq, mask = exp
    if pdu is None:
        ctx.fail(f"C03:defined-rejected:{name}:{kind}", inp, f"defined TPCI {octet:#04x} rejected")
        return
    if type(pdu).__name__ != name:
        ctx.fail(f"C03:wrong-class:{name}->{type(pdu).__name__}:{kind}", inp, f"{octet:#04x} decoded as {pdu!r}, expected {name}")
        return
    if seq is not None and name in ("TDataConnected", "TAck", "TNak") and pdu.sequence_number != seq:
        ctx.fail(f"C03:wrong-seq:{name}", inp, f"{octet:#04x} -> {pdu!r}, expected seq {seq}")
    enc = pdu.to_knx()
    if (enc & mask) != (octet & mask) or not 0 <= enc <= 0xFF:
        ctx.fail(f"C03:reencode:{name}:{kind}", inp, f"{octet:#04x} -> {pdu!r} -> {enc:#04x}")


def built_pdus():
    for seq in range(16):
        yield T.TDataConnected(seq), ("individual",)
        yield T.TAck(seq), ("individual",)
        yield T.TNak(seq), ("individual",)
    yield T.TConnect(), ("individual",)
    yield T.TDisconnect(), ("individual",)
    yield T.TDataIndividual(), ("individual",)
    yield T.TDataGroup(), ("group",)
    yield T.TDataBroadcast(), ("broadcast",)
    yield T.TDataTagGroup(), ("group", "broadcast")


def check_built(ctx, pdu, kind: str) -> None:
    inp = {"pdu": repr(pdu), "kind": kind}
    try:
        enc = pdu.to_knx()
        back = T.TPCI.resolve(enc, dst_is_group_address=kind != "individual", dst_is_zero=kind == "broadcast")
    except Exception as e:  # noqa: BLE001
        ctx.fail(f"C03:built-roundtrip-exc:{type(pdu).__name__}:{type(e).__name__}", inp, repr(e))
        return
    if type(back) is not type(pdu) or back != pdu or back.sequence_number != pdu.sequence_number:
        ctx.fail(f"C03:built-roundtrip-neq:{type(pdu).__name__}", inp, f"{pdu!r} -> {enc:#04x} -> {back!r}")
    # also with APCI bits set in the low two bits for data PDUs
    if not pdu.control:
        for low in (1, 2, 3):
            back2 = T.TPCI.resolve(enc | low, dst_is_group_address=kind != "individual", dst_is_zero=kind == "broadcast")
            if type(back2) is not type(pdu) or back2 != pdu:
                ctx.fail(f"C03:built-roundtrip-apcibits:{type(pdu).__name__}", inp, f"{enc | low:#04x} -> {back2!r}")


def run(ctx) -> None:
    nontrivial = 0
    for kind in KINDS:
        for octet in range(256):
            check_octet(ctx, octet, kind)
            if octet > 3:
                nontrivial += 1
            if octet in (0x00, 0x04, 0x43, 0x80, 0x82, 0xC2, 0xFF):
                ctx.sample({"octet": f"{octet:#04x}", "kind": kind, "ref": ref_decode(octet, kind)})
    ctx.bulk(256 * 3, nontrivial, "octet-x-kind")
    nb = 0
    for pdu, kinds in built_pdus():
        for kind in kinds:
            check_built(ctx, pdu, kind)
            nb += 1
    ctx.bulk(nb, nb, "built-pdu")
    ctx.exhaustive = True


def replay(ctx, case) -> None:
    if "octet" in case:
        check_octet(ctx, int(case["octet"]), case["kind"])
    elif "pdu" in case:
        for pdu, kinds in built_pdus():
            if repr(pdu) == case["pdu"]:
                check_built(ctx, pdu, case["kind"])
