"""C03 - transport-layer control octets decode only to PDUs that re-encode to them.

Exhaustive: 256 octets x {individual, group, broadcast} against a reference table
written from KNX 03_03_04 Transport Layer §2 (TPDU coding), and every constructible
PDU (sequence numbers 0..15) through encode -> decode, both at the TPCI codec and
through the frame encoder / parser (CEMILData.to_knx / from_knx), where the TPCI octet
is merged with the first APCI octet.
"""

from __future__ import annotations

from xknx.exceptions import ConversionError
from xknx.telegram import tpci as T

PROPERTY = "C03"
LEVEL = "exploration"
RULE = (
    "exhaustive enumeration of 256 TPCI octets x 3 destination kinds (through TPCI.resolve and inside an L_Data frame through CEMILData.from_knx) against an "
    "independent reference table, plus every constructible PDU (seq 0..15) x matching "
    "destination kinds, encoded and decoded by the TPCI codec and by the cEMI L_Data frame encoder/parser; non-trivial = every (octet,kind) pair other than the plain "
    "T_Data_Group/Broadcast/Individual octets 0..3 and every built PDU; distinct by construction"
)
ASSUMPTIONS = [
    "reference TPCI table written from Transport Layer §2: T_Data_* 000000xx, "
    "T_Data_Tag_Group 000001xx (group only), T_Data_Connected 01SSSSxx, T_Connect 0x80, "
    "T_Disconnect 0x81, T_ACK 11SSSS10, T_NAK 11SSSS11 (connection-oriented ones individual only)",
]

KINDS = ("individual", "group", "broadcast")


def ref_decode(octet: int, kind: str):
    """Reference: (class name, seq, mask) or None if undefined for that destination kind."""
    hi6 = octet >> 2
    if kind in ("group", "broadcast"):
        if hi6 == 0:
            return ("TDataBroadcast" if kind == "broadcast" else "TDataGroup", 0, 0xFC)
        if hi6 == 1:
            return ("TDataTagGroup", None, 0xFC)
        return None
    # individual destination
    if hi6 == 0:
        return ("TDataIndividual", 0, 0xFC)
    if octet & 0xC0 == 0x40:
        return ("TDataConnected", (octet >> 2) & 0xF, 0xFC)
    if octet == 0x80:
        return ("TConnect", 0, 0xFF)
    if octet == 0x81:
        return ("TDisconnect", 0, 0xFF)
    if octet & 0xC3 == 0xC2:
        return ("TAck", (octet >> 2) & 0xF, 0xFF)
    if octet & 0xC3 == 0xC3:
        return ("TNak", (octet >> 2) & 0xF, 0xFF)
    return None


def selftest(ctx) -> None:
    assert ref_decode(0x00, "group")[0] == "TDataGroup"
    assert ref_decode(0x00, "broadcast")[0] == "TDataBroadcast"
    assert ref_decode(0x43, "individual") == ("TDataConnected", 0, 0xFC)
    assert ref_decode(0xC2, "individual") == ("TAck", 0, 0xFF)
    assert ref_decode(0xFF, "individual") == ("TNak", 15, 0xFF)
    assert ref_decode(0x82, "individual") is None
    assert ref_decode(0x80, "group") is None
    n_def = sum(ref_decode(o, k) is not None for o in range(256) for k in KINDS)
    assert n_def == 4 + 64 + 2 + 16 + 16 + 2 * 8, n_def


def check_octet(ctx, octet: int, kind: str) -> None:
    inp = {"octet": octet, "kind": kind}
    exp = ref_decode(octet, kind)
    try:
        pdu = T.TPCI.resolve(octet, dst_is_group_address=kind != "individual", dst_is_zero=kind == "broadcast")
    except ConversionError:
        pdu = None
    except Exception as e:  # noqa: BLE001
        ctx.fail(f"C03:decode-exc:{type(e).__name__}", inp, repr(e))
        return
    if exp is None:
        if pdu is not None:
            # undefined code read as another PDU
            ctx.fail(f"C03:undefined-accepted:{type(pdu).__name__}:{kind}", inp, f"undefined TPCI {octet:#04x} for {kind} destination decoded as {pdu!r} (re-encodes {pdu.to_knx():#04x})")
        return
    name, seq, mask = exp
    if pdu is None:
        ctx.fail(f"C03:defined-rejected:{name}:{kind}", inp, f"defined TPCI {octet:#04x} rejected")
        return
    if type(pdu).__name__ != name:
        ctx.fail(f"C03:wrong-class:{name}->{type(pdu).__name__}:{kind}", inp, f"{octet:#04x} decoded as {pdu!r}, expected {name}")
        return
    if seq is not None and name in ("TDataConnected", "TAck", "TNak") and pdu.sequence_number != seq:
        ctx.fail(f"C03:wrong-seq:{name}", inp, f"{octet:#04x} -> {pdu!r}, expected seq {seq}")
    enc = pdu.to_knx()
    if (enc & mask) != (octet & mask) or not 0 <= enc <= 0xFF:
        ctx.fail(f"C03:reencode:{name}:{kind}", inp, f"{octet:#04x} -> {pdu!r} -> {enc:#04x}")


def built_pdus():
    for seq in range(16):
        yield T.TDataConnected(seq), ("individual",)
        yield T.TAck(seq), ("individual",)
        yield T.TNak(seq), ("individual",)
    yield T.TConnect(), ("individual",)
    yield T.TDisconnect(), ("individual",)
    yield T.TDataIndividual(), ("individual",)
    yield T.TDataGroup(), ("group",)
    yield T.TDataBroadcast(), ("broadcast",)
    yield T.TDataTagGroup(), ("group", "broadcast")


def check_built(ctx, pdu, kind: str) -> None:
    inp = {"pdu": repr(pdu), "kind": kind}
    try:
        enc = pdu.to_knx()
        back = T.TPCI.resolve(enc, dst_is_group_address=kind != "individual", dst_is_zero=kind == "broadcast")
    except Exception as e:  # noqa: BLE001
        ctx.fail(f"C03:built-roundtrip-exc:{type(pdu).__name__}:{type(e).__name__}", inp, repr(e))
        return
    if type(back) is not type(pdu) or back != pdu or back.sequence_number != pdu.sequence_number:
        ctx.fail(f"C03:built-roundtrip-neq:{type(pdu).__name__}", inp, f"{pdu!r} -> {enc:#04x} -> {back!r}")
    # also with APCI bits set in the low two bits for data PDUs
    if not pdu.control:
        for low in (1, 2, 3):
            back2 = T.TPCI.resolve(enc | low, dst_is_group_address=kind != "individual", dst_is_zero=kind == "broadcast")
            if type(back2) is not type(pdu) or back2 != pdu:
                ctx.fail(f"C03:built-roundtrip-apcibits:{type(pdu).__name__}", inp, f"{enc | low:#04x} -> {back2!r}")


def _cemi_case(pdu, kind: str):
    """(CEMILData carrying `pdu` to a destination of `kind`, reference TPCI bits on the wire)."""
    from xknx.cemi import CEMIFlags, CEMILData
    from xknx.telegram import GroupAddress, IndividualAddress
    from xknx.telegram.apci import GroupValueRead, MemoryRead

    dst = {"individual": IndividualAddress("1.2.3"), "group": GroupAddress("1/2/3"), "broadcast": GroupAddress(0)}[kind]
    payload = None if pdu.control else (MemoryRead(address=0x1234, count=3) if kind == "individual" else GroupValueRead())
    return CEMILData(flags=CEMIFlags(), src_addr=IndividualAddress("1.1.1"), dst_addr=dst, tpci=pdu, payload=payload)


def check_built_cemi(ctx, pdu, kind: str) -> None:
    """The same build -> encode -> decode clause through the frame encoder (CEMILData.to_knx / from_knx)."""
    from xknx.cemi import CEMILData

    inp = {"pdu": repr(pdu), "kind": kind, "via": "cemi"}
    name = type(pdu).__name__
    try:
        frame = _cemi_case(pdu, kind)
        raw = frame.to_knx()
        back = CEMILData.from_knx(raw)
    except Exception as e:  # noqa: BLE001
        ctx.fail(f"C03:cemi-built-roundtrip-exc:{name}:{type(e).__name__}", inp, repr(e))
        return
    wire = raw[7]  # ctrl1 ctrl2 src(2) dst(2) len | TPCI/APCI octet
    exp = ref_decode(wire, kind)
    if exp is None or exp[0] != name or (name in ("TDataConnected", "TAck", "TNak") and exp[1] != pdu.sequence_number):
        ctx.fail(f"C03:cemi-wire-tpci:{name}:{kind}", inp, f"{pdu!r} goes on the wire as TPCI octet {wire:#04x} (reference reads it as {exp}); frame {raw.hex()}")
        return
    if type(back.tpci) is not type(pdu) or back.tpci != pdu or back.tpci.sequence_number != pdu.sequence_number:
        ctx.fail(f"C03:cemi-built-roundtrip-neq:{name}:{kind}", inp, f"{pdu!r} -> {raw.hex()} -> {back.tpci!r}")


def check_octet_cemi(ctx, octet: int, kind: str) -> None:
    """The decode clause through the frame parser: an L_Data frame whose TPCI octet is `octet`."""
    from xknx.cemi import CEMILData
    from xknx.exceptions import CouldNotParseCEMI, UnsupportedCEMIMessage

    inp = {"octet": octet, "kind": kind, "via": "cemi"}
    exp = ref_decode(octet, kind)
    dst = {"individual": b"\x12\x03", "group": b"\x0a\x03", "broadcast": b"\x00\x00"}[kind]
    ctrl2 = 0x60 if kind == "individual" else 0xE0
    if octet & 0x80:  # control TPDU: no APDU
        raw = bytes([0xBC, ctrl2, 0x11, 0x01]) + dst + bytes([0x00, octet])
    else:  # data TPDU: the low two bits belong to the APCI (A_GroupValue_Read / A_Memory_Read 3 @ 0x1234)
        apdu = bytes([octet & 0xFC | 0x02, 0x03, 0x12, 0x34]) if kind == "individual" else bytes([octet & 0xFC, 0x00])
        raw = bytes([0xBC, ctrl2, 0x11, 0x01]) + dst + bytes([len(apdu) - 1]) + apdu
        exp = ref_decode(octet & 0xFC, kind)
    try:
        tp = CEMILData.from_knx(raw).tpci
    except (CouldNotParseCEMI, UnsupportedCEMIMessage, ConversionError):
        tp = None
    except Exception as e:  # noqa: BLE001
        ctx.fail(f"C03:cemi-decode-exc:{type(e).__name__}", inp, f"{raw.hex()}: {e!r}")
        return
    if exp is None:
        if tp is not None:
            ctx.fail(f"C03:cemi-undefined-accepted:{type(tp).__name__}:{kind}", inp, f"frame {raw.hex()} with undefined TPCI {octet:#04x} for {kind} destination parsed as {tp!r}")
        return
    name, seq, mask = exp
    if tp is None:
        ctx.fail(f"C03:cemi-defined-rejected:{name}:{kind}", inp, f"frame {raw.hex()} with defined TPCI {octet:#04x} rejected")
    elif type(tp).__name__ != name or (name in ("TDataConnected", "TAck", "TNak") and tp.sequence_number != seq):
        ctx.fail(f"C03:cemi-wrong-pdu:{name}->{type(tp).__name__}:{kind}", inp, f"frame {raw.hex()}: TPCI {octet:#04x} parsed as {tp!r}, expected {name} seq {seq}")
    elif (tp.to_knx() & mask) != (octet & mask):
        ctx.fail(f"C03:cemi-reencode:{name}:{kind}", inp, f"{octet:#04x} -> {tp!r} -> {tp.to_knx():#04x}")


def run(ctx) -> None:
    nontrivial = 0
    for kind in KINDS:
        for octet in range(256):
            check_octet(ctx, octet, kind)
            check_octet_cemi(ctx, octet, kind)
            if octet > 3:
                nontrivial += 2
            if octet in (0x00, 0x04, 0x43, 0x80, 0x82, 0xC2, 0xFF):
                ctx.sample({"octet": f"{octet:#04x}", "kind": kind, "ref": ref_decode(octet, kind)})
    ctx.bulk(256 * 3 * 2, nontrivial, "octet-x-kind")
    nb = 0
    for pdu, kinds in built_pdus():
        for kind in kinds:
            check_built(ctx, pdu, kind)
            check_built_cemi(ctx, pdu, kind)
            nb += 2
    ctx.bulk(nb, nb, "built-pdu")
    ctx.exhaustive = True


def replay(ctx, case) -> None:
    if "octet" in case:
        (check_octet_cemi if case.get("via") == "cemi" else check_octet)(ctx, int(case["octet"]), case["kind"])
    elif "pdu" in case:
        for pdu, kinds in built_pdus():
            if repr(pdu) == case["pdu"]:
                (check_built_cemi if case.get("via") == "cemi" else check_built)(ctx, pdu, case["kind"])
