"""C17 - Data Secure enforces sequence-number freshness in both directions.

Histories of received secured frames (genuine with next / skipped / equal / lower
sequence numbers, replays of any earlier frame, forged MACs with high sequence numbers,
wrong keys, unknown senders, secured frames to groups without a key) from several
senders are fed to a real XKNX receive path; a reference last-valid-counter model is
advanced in lock-step and compared after every frame. Outgoing: instances created close
to the 48-bit limit must count up strictly, never exceed 2^48-1 and then fail.
"""

from __future__ import annotations

from hypothesis import strategies as st

from vk.core import exc_site
from vk.engine import hyp_search, parallel

PROPERTY = "C17"
LEVEL = "exploration"
TECHNIQUE = "model-based property testing: Hypothesis-generated receive/send histories vs reference last-valid-counter model, invariant after every step"
RULE = (
    "history = list of ops (genuine frame with seq relative to the sender's last valid number, replay of an earlier frame, forged MAC, wrong key, unknown sender, "
    "secured frame to an unkeyed group, both algorithms) over 1-3 senders and 3 groups; non-trivial = history with a replay after a MAC failure, or with two senders interleaved, "
    "or outgoing sends interleaved with the receive history (which must not create or move sender-table entries), or an outgoing run crossing the 48-bit limit, or an outgoing run in which an already secured APDU (own earlier output / captured frame) is handed to the send path again; distinct by history"
)
LEVEL_TEXT = "Sampled histories against an explicit reference model of the per-sender last valid sequence number; every delivery decision of the real receive path is compared with the model, so a single wrong comparison, a counter advanced by a rejected frame or a missing sender check shows up as soon as a history exercises it."
LEVEL_NOTE = "Frames are built with xknx's own SecureData (its conformance is C19's job); a forged MAC passing by chance has probability 2^-32 per frame."
ASSUMPTIONS = [
    "secured frames are built with xknx.secure.data_secure_asdu.SecureData (judged independently by C19)",
    "a forged 4-octet MAC passes by chance with probability 2^-32 per forged frame",
]

SENDERS = [0x1101, 0x1102, 0x1103]
UNKNOWN = 0x1201
GROUPS = [0x0801, 0x0802, 0x0803]  # the last one has no key
KEYS = {0x0801: bytes(range(16)), 0x0802: bytes(range(100, 116))}
OTHERKEY = bytes(range(200, 216))
MAXSEQ = (1 << 48) - 1


def _apdu(val: int) -> bytes:
    from xknx.dpt import DPTArray
    from xknx.telegram.apci import GroupValueWrite

    return GroupValueWrite(DPTArray((val & 0xFF, (val >> 8) & 0xFF))).to_knx()


_seqmode = st.sampled_from(["next", "next", "skip", "skip", "equal", "lower", "zero", "max"])
_op = st.one_of(
    st.tuples(st.just("gen"), st.integers(0, 2), _seqmode, st.integers(0, 2), st.integers(0, 65535), st.booleans()),
    st.tuples(st.just("replay"), st.integers(0, 40)),
    # replay of an earlier frame with only UNPROTECTED control bits changed (repeat flag, priority, hop count):
    # the MAC still verifies, so only the freshness rule keeps it out
    st.tuples(st.just("replay_ctl"), st.integers(0, 40), st.sampled_from(["repeat", "prio", "hop", "repeat+hop"])),
    st.tuples(st.just("forged"), st.integers(0, 2), st.integers(1, 1000), st.integers(0, 1), st.integers(0, 65535), st.integers(0, 31)),
    st.tuples(st.just("wrongkey"), st.integers(0, 2), st.integers(1, 1000), st.integers(0, 1), st.integers(0, 65535)),
    st.tuples(st.just("unknown"), st.integers(1, 10**6), st.integers(0, 1), st.integers(0, 65535)),
    # the receiving instance itself sends a secured telegram (source: an unlisted own address or a listed sender address)
    st.tuples(st.just("send"), st.integers(0, 1), st.integers(0, 1), st.integers(0, 255)),
)


@st.composite
def histories(draw):
    n_senders = draw(st.integers(1, 3))
    init = [draw(st.sampled_from([0, 0, 5, 1000, MAXSEQ - 3])) for _ in range(n_senders)]
    ops = draw(st.lists(_op, min_size=1, max_size=25))
    return {"init": init, "ops": [list(o) for o in ops]}


def run_history(ctx, h) -> dict:
    """Interpret one history against the real receive path and the model. Returns class flags."""
    from vk.dsec import AUTH, ENC, Receiver, secure_frame, with_loop

    from xknx.cemi import CEMIFlags, CEMILData
    from xknx.dpt import DPTArray
    from xknx.telegram import GroupAddress, IndividualAddress
    from xknx.telegram.apci import GroupValueWrite
    from xknx.telegram.tpci import TDataGroup

    flags = {"replay_after_macfail": False, "interleaved": False, "send_interleaved": False, "replay_ctl": False}

    def body():
        init = h["init"]
        n = len(init)
        last = {SENDERS[i]: init[i] for i in range(n)}
        rx = Receiver(KEYS, dict(last))
        frames: list[dict] = []
        sent: list[int] = []
        macfail_seen = False
        prev_sender = None
        try:
            for step, op in enumerate(h["ops"]):
                kind = op[0]
                if kind == "send":
                    # outgoing traffic must neither create nor move entries of the sender table, and carries increasing numbers
                    src = UNKNOWN if op[1] == 0 else SENDERS[0]
                    data = CEMILData(flags=CEMIFlags(), src_addr=IndividualAddress(src), dst_addr=GroupAddress(GROUPS[op[2]]), tpci=TDataGroup(), payload=GroupValueWrite(DPTArray((op[3],))))
                    try:
                        out = rx.ds.outgoing_cemi(data)
                    except Exception as e:  # noqa: BLE001
                        ctx.fail(f"C17:outgoing-raised:{exc_site(e)}", h, f"step {step} {op}: {e!r}")
                        return
                    seq_out = int.from_bytes(out.payload.secured_data.sequence_number_bytes, "big")
                    if sent and seq_out <= sent[-1]:
                        ctx.fail("C17:outgoing-wrap-or-not-increasing", h, f"step {step}: outgoing sequence numbers {sent[-3:]} then {seq_out}")
                        return
                    sent.append(seq_out)
                    flags["send_interleaved"] = True
                    continue
                if kind in ("replay", "replay_ctl"):
                    if not frames:
                        continue
                    fr = frames[op[1] % len(frames)]
                    if macfail_seen:
                        flags["replay_after_macfail"] = True
                    if kind == "replay_ctl":
                        raw = bytearray(fr["raw"])
                        # cEMI: [0]=msg code [1]=addil (0) [2]=Ctrl1 [3]=Ctrl2
                        if "repeat" in op[2]:
                            raw[2] ^= 0x20  # repeat flag
                        if op[2] == "prio":
                            raw[2] ^= 0x04  # priority bit
                        if "hop" in op[2]:
                            raw[3] ^= 0x10  # hop count bit
                        fr = {**fr, "raw": bytes(raw)}
                        flags["replay_ctl"] = True
                else:
                    if kind == "gen":
                        s = SENDERS[op[1] % n]
                        mode, g, val, auth = op[2], GROUPS[op[3]], op[4], op[5]
                        lv = last[s]
                        seq = {"next": lv + 1, "skip": lv + 1 + (val % 977), "equal": lv, "lower": max(0, lv - 1 - (val % 7)), "zero": 0, "max": MAXSEQ}[mode]
                        seq = min(seq, MAXSEQ)
                        key = KEYS.get(g, OTHERKEY)
                        raw = secure_frame(key, s, g, seq, _apdu(val), AUTH if auth else ENC)
                        fr = {"raw": raw, "sender": s, "seq": seq, "genuine": True, "keyed": g in KEYS, "known": True, "val": val}
                    elif kind == "forged":
                        s = SENDERS[op[1] % n]
                        g, val, bit = GROUPS[op[3]], op[4], op[5]
                        seq = min(last[s] + op[2], MAXSEQ)
                        raw = bytearray(secure_frame(KEYS[g], s, g, seq, _apdu(val)))
                        raw[len(raw) - 4 + bit // 8] ^= 1 << (bit % 8)  # flip one MAC bit
                        fr = {"raw": bytes(raw), "sender": s, "seq": seq, "genuine": False, "keyed": True, "known": True, "val": val}
                    elif kind == "wrongkey":
                        s = SENDERS[op[1] % n]
                        g, val = GROUPS[op[3]], op[4]
                        seq = min(last[s] + op[2], MAXSEQ)
                        fr = {"raw": secure_frame(OTHERKEY, s, g, seq, _apdu(val)), "sender": s, "seq": seq, "genuine": False, "keyed": True, "known": True, "val": val}
                    else:  # unknown sender
                        g, val = GROUPS[op[2]], op[3]
                        fr = {"raw": secure_frame(KEYS[g], UNKNOWN, g, op[1], _apdu(val)), "sender": UNKNOWN, "seq": op[1], "genuine": True, "keyed": True, "known": False, "val": val}
                    frames.append(fr)
                s = fr["sender"]
                if prev_sender is not None and s != prev_sender and fr["known"]:
                    flags["interleaved"] = True
                prev_sender = s if fr["known"] else prev_sender
                expect = fr["genuine"] and fr["known"] and fr["keyed"] and fr["seq"] > last.get(s, MAXSEQ + 1)
                got, exc = rx.feed(fr["raw"])
                where = {"step": step, "op": op}
                if exc is not None:
                    ctx.fail(f"C17:receive-raised:{exc_site(exc)}", h, f"{where}: {exc!r}")
                    return
                if len(got) > 1:
                    ctx.fail("C17:delivered-twice", h, f"{where}: {len(got)} telegrams queued for one frame")
                    return
                delivered = len(got) == 1
                if delivered and not expect:
                    if not fr["known"]:
                        b = "C17:delivered-unknown-sender"
                    elif not fr["genuine"]:
                        b = "C17:delivered-forged"
                    elif not fr["keyed"]:
                        b = "C17:delivered-unkeyed-group"
                    else:
                        b = "C17:delivered-stale-equal" if fr["seq"] == last[s] else "C17:delivered-stale-lower"
                    ctx.fail(b, h, f"{where}: frame seq {fr['seq']} from {s:#06x} delivered; model last valid {last.get(s)}")
                    return
                if expect and not delivered:
                    advanced_by_reject = any(
                        (not f["genuine"]) and f["sender"] == s and f["seq"] >= fr["seq"] for f in frames if f is not fr
                    )
                    b = "C17:rejected-frame-advanced-counter" if advanced_by_reject else "C17:fresh-frame-rejected"
                    ctx.fail(b, h, f"{where}: genuine frame seq {fr['seq']} from {s:#06x} not delivered; model last valid {last[s]}")
                    return
                if delivered:
                    t = got[0]
                    if t.payload is None or t.payload.to_knx() != _apdu(fr["val"]) or t.data_secure is not True:
                        ctx.fail("C17:delivered-content", h, f"{where}: delivered {t!r}")
                        return
                    last[s] = fr["seq"]
                if not fr["genuine"]:
                    macfail_seen = True
        finally:
            rx.close()

    with_loop(body)
    return flags


def _oracle(ctx, h) -> None:
    flags = run_history(ctx, h)
    nt = flags["replay_after_macfail"] or flags["interleaved"] or flags["send_interleaved"] or flags["replay_ctl"]
    cls = [k for k, v in flags.items() if v] or ["plain"]
    ctx.case(repr(h), nontrivial=nt, cls=cls, sample=h if nt and len(h["ops"]) <= 6 else None)


def outgoing_case(ctx, start: int, n: int, interleave_rx: bool, resend: int = 0) -> None:
    from xknx.cemi import CEMIFlags, CEMILData
    from xknx.dpt import DPTArray
    from xknx.exceptions import DataSecureError
    from xknx.secure.data_secure import DataSecure
    from xknx.telegram import GroupAddress, IndividualAddress
    from xknx.telegram.apci import GroupValueWrite, SecureAPDU
    from xknx.telegram.tpci import TDataGroup

    from vk.dsec import secure_frame, with_loop

    inp = {"outgoing_start": start, "n": n, "interleave_rx": interleave_rx, "resend": resend}

    def body():
        ds = DataSecure(
            group_key_table={GroupAddress(g): k for g, k in KEYS.items()},
            individual_address_table={IndividualAddress(SENDERS[0]): 0},
            last_sequence_number_sending=start,
        )
        seqs: list[int] = []
        sent: list = []
        failed_at = None
        for i in range(n):
            data = CEMILData(flags=CEMIFlags(), src_addr=IndividualAddress(0x11FA), dst_addr=GroupAddress(0x0801), tpci=TDataGroup(), payload=GroupValueWrite(DPTArray((i & 0xFF,))))
            if resend and i % resend == resend - 1:
                # an already secured APDU handed to the send path again (own earlier output, or a captured frame of
                # another sender): whatever it contains, the frame that leaves carries this instance's next number
                data.payload = sent[-1] if sent and i % 2 else _parse(secure_frame(KEYS[0x0801], SENDERS[0], 0x0801, 1 + i, _apdu(i))).payload
            if interleave_rx and i % 2:
                try:
                    ds.received_cemi(_parse(secure_frame(KEYS[0x0801], SENDERS[0], 0x0801, i + 1, _apdu(i))))
                except DataSecureError:
                    pass
            try:
                out = ds.outgoing_cemi(data)
            except DataSecureError:
                failed_at = i if failed_at is None else failed_at
                continue
            except Exception as e:  # noqa: BLE001
                ctx.fail(f"C17:outgoing-raised:{exc_site(e)}", inp, repr(e))
                return
            if failed_at is not None:
                ctx.fail("C17:outgoing-after-exhaustion", inp, f"frame {i} sent after the counter was exhausted at frame {failed_at}")
                return
            if not isinstance(out.payload, SecureAPDU):
                ctx.fail("C17:outgoing-plain", inp, f"frame {i} to a keyed group left plain")
                return
            seqs.append(int.from_bytes(out.payload.secured_data.sequence_number_bytes, "big"))
            sent.append(out.payload)
        exp = [s for s in range(start, start + n) if s <= MAXSEQ]
        if seqs != exp:
            if any(s > MAXSEQ for s in seqs) or (len(seqs) > 1 and any(b <= a for a, b in zip(seqs, seqs[1:]))):
                ctx.fail("C17:outgoing-wrap-or-not-increasing", inp, f"sequence numbers {seqs[:8]}.. reference {exp[:8]}..")
            else:
                ctx.fail("C17:outgoing-sequence", inp, f"sequence numbers {seqs[:8]}.. reference {exp[:8]}..")
        elif start + n - 1 > MAXSEQ and failed_at is None:
            ctx.fail("C17:outgoing-no-error-on-exhaustion", inp, "no DataSecureError after 2^48-1")

    with_loop(body)
    ctx.case(("out", start, n, interleave_rx, resend), nontrivial=resend > 0 or start + n - 1 > MAXSEQ, cls="outgoing-crossing-limit" if start + n - 1 > MAXSEQ else ("outgoing-resend-secured" if resend else "outgoing"), sample=inp if (start + n - 1 > MAXSEQ or resend) and n < 5 else None)


def _parse(raw: bytes):
    from xknx.cemi import CEMIFrame

    return CEMIFrame.from_knx(raw).data


def _hyp_shard(ctx, n: int) -> None:
    hyp_search(ctx, histories(), _oracle, n)


def _out_shard(ctx, lo: int, hi: int) -> None:
    for k in range(lo, hi):
        for extra in (0, 1, 3):
            for irx in (False, True):
                outgoing_case(ctx, MAXSEQ - k, k + 1 + extra, irx)
    for start in (1, 2, 1000, 1 << 32, (1 << 47) + 12345, MAXSEQ - 1000):
        outgoing_case(ctx, start + lo, 12, lo % 2 == 0)
        for resend in (1, 2, 3, 4):
            outgoing_case(ctx, start + lo, 4 + resend, lo % 4 < 2, resend)
    for k in range(lo, hi):
        outgoing_case(ctx, MAXSEQ - k, k + 3, False, 2)


def run(ctx) -> None:
    parallel(ctx, _hyp_shard, [(ctx.n(400, 8000),)] * 16)
    parallel(ctx, _out_shard, [(i, i + 2) for i in range(0, 16, 2)])


def replay(ctx, case) -> None:
    if "outgoing_start" in case:
        outgoing_case(ctx, int(case["outgoing_start"]), int(case["n"]), bool(case["interleave_rx"]), int(case.get("resend", 0)))
    else:
        run_history(ctx, case)
