"""C33 - outgoing telegrams go out in order, one at a time, rate-limited, and never stall the queue.

A real XKNX (started telegram queue) runs on the virtual-time loop over a recording stub
interface. A history is a list of operations generated as data:

    ["tg", {"dir": "in"|"ind"|"out", "dst": <raw group address>|"i-name", "apci": ...}]
    ["sleep", seconds]                      virtual time passes (sends progress meanwhile)
    ["restart"]                             telegram_queue.stop() followed by start()

with a per-send plan for the stub (ok + confirmation, slow, raising CommunicationError /
ConversionError / an unexpected exception type, missing or late confirmation), raising
telegram callbacks, raising devices and a rate limit. Callbacks may forward a further outgoing
telegram and devices may answer a GroupValueRead with a response (follow-up telegrams queued
while a telegram is being processed). After the history either `xknx.join()` and
`telegram_queue.stop()`, or the public `XKNX.stop()` (while telegrams are still pending) followed
by `xknx.join()`, are awaited with a virtual-time bound. The queue order is the observed order of
`put_nowait` calls on `xknx.telegrams`. Every telegram carries a
unique source address, so the stub log identifies which telegram each send_cemi carried.
"""

from __future__ import annotations

import asyncio
from collections import Counter

from hypothesis import strategies as st

from vk.core import exc_site
from vk.engine import hyp_search, parallel
from vk.vloop import BudgetExceeded, Deadlock, run_case

PROPERTY = "C33"
LEVEL = "exploration"
TECHNIQUE = "property-based testing (Hypothesis) of generated telegram/fault schedules on a real XKNX telegram queue in virtual time; stub-interface log + bounded-time liveness oracle"
RULE = (
    "case = (rate limit in {0,5,20,100}, up to 14 ops: telegram in/out/internal | virtual sleep | queue restart, per-send stub plan "
    "{ok, slow, raise CommunicationError/ConversionError/unexpected, no confirmation, late confirmation}, raising/non-raising callbacks optionally forwarding a further outgoing telegram, "
    "raising/non-raising devices optionally answering reads with a response, final phase join()+telegram_queue.stop() or XKNX.stop() with telegrams pending, then join()); "
    "non-trivial = at least two outgoing group telegrams and (a rate limit or at least one injected fault: failing/slow/unconfirmed send, raising callback or raising device that is actually hit, or follow-up telegrams); distinct by case"
)
LEVEL_TEXT = (
    "Generated schedules were run through the real telegram queue in virtual time; the stub interface log decides order, exclusiveness and spacing of sends and that internal-address telegrams never reach it; "
    "join() and stop() must return within a stated virtual-time bound with both queues empty and no unfinished item. Sampled schedules can refute, not prove."
)
LEVEL_NOTE = "Single-threaded asyncio on a virtual clock; the interface below KNXIPInterface is a stub (send outcomes scripted per call); liveness is bounded-time progress in virtual time."
ASSUMPTIONS = [
    "queue order = order of put_nowait calls on xknx.telegrams (recorded), including follow-up telegrams queued by callbacks (forwarding) and devices (answering a read) during processing; follow-ups are not forwarded again",
    "liveness bound: join() and stop() each return within (number of telegrams incl. possible follow-ups + 1) x (3 s confirmation timeout + longest scripted send delay + 1/r) + 10 s of virtual time",
    "rate limit spacing is checked on send_cemi start times with a tolerance of 1e-6 s (timer wake-ups on the loop are exact up to the 1e-9 clock resolution)",
    "'reaches the interface' = one KNXIPInterface.send_cemi call per outgoing group telegram, whether it then succeeds or raises",
    "callbacks and devices are required for internal-address telegrams only when no device on that address raises for it (the statement demands liveness, not delivery, after a device error); for all telegrams they must never be invoked more than once",
    "unexpected exception types raised by the interface are Exception subclasses (ValueError, OSError, RuntimeError, TimeoutError), not BaseException/CancelledError",
    "destination 0 (broadcast) and individual addresses are not generated: they are not group telegrams",
    "a queue restart (stop() then start() on the same instance) is part of the generated histories; the 1/r spacing is not demanded between the last send before and the first send after a restart",
]

BASE_SRC = 0x1100
FOLLOW_SRC = 0x2000  # source addresses of follow-up telegrams queued by callbacks / devices while a telegram is processed
FOLLOW_ID = 1000  # telegram ids of follow-ups: 1000, 1001, ... in the order they were queued


def _tid(raw: int) -> int:
    """Telegram id from its unique source address: 0.. for the history's telegrams, 1000.. for follow-ups."""
    return FOLLOW_ID + raw - FOLLOW_SRC if raw >= FOLLOW_SRC else raw - BASE_SRC
RATES = [0, 5, 20, 100]
SEND_KINDS = ["ok", "ok", "ok", "slow", "comm", "conv", "unexpected", "noconfirm", "lateconfirm", "slowraise"]
UNEXPECTED = ["ValueError", "OSError", "RuntimeError", "TimeoutError"]
DEV_EXC = ["RuntimeError", "ConversionError", "CouldNotParseTelegram"]
TOL = 1e-6


def _mk_addr(a):
    from xknx.telegram.address import GroupAddress, InternalGroupAddress

    return InternalGroupAddress(a) if isinstance(a, str) else GroupAddress(a)


def _mk_payload(apci: str):
    from xknx.dpt import DPTArray, DPTBinary
    from xknx.telegram.apci import GroupValueRead, GroupValueResponse, GroupValueWrite

    if apci == "w0":
        return GroupValueWrite(DPTBinary(0))
    if apci == "w1":
        return GroupValueWrite(DPTBinary(1))
    if apci == "wa":
        return GroupValueWrite(DPTArray((0x12, 0x34)))
    if apci == "r1":
        return GroupValueResponse(DPTBinary(1))
    return GroupValueRead()


def _exc(name: str):
    from xknx.exceptions import CommunicationError, ConversionError, CouldNotParseTelegram

    if name == "comm":
        return CommunicationError("scripted send failure")
    if name == "comm-quiet":
        return CommunicationError("scripted send failure", should_log=False)
    if name in ("conv", "ConversionError"):
        return ConversionError("scripted conversion failure")
    if name == "CouldNotParseTelegram":
        return CouldNotParseTelegram("scripted")
    return {"ValueError": ValueError, "OSError": OSError, "RuntimeError": RuntimeError, "TimeoutError": TimeoutError}[name]("scripted unexpected failure")


def plan_entry(p) -> dict:
    """Stub behaviour of one send from its plan symbol [kind, x]."""
    kind, x = p[0], p[1]
    if kind == "slow":
        return {"delay": float(x)}
    if kind == "comm":
        return {"exc": _exc("comm" if x else "comm-quiet")}
    if kind == "conv":
        return {"exc": _exc("conv")}
    if kind == "unexpected":
        return {"exc": _exc(UNEXPECTED[int(x) % len(UNEXPECTED)])}
    if kind == "slowraise":
        return {"delay": float(x), "exc": _exc("comm")}
    if kind == "noconfirm":
        return {"confirm": False}
    if kind == "lateconfirm":
        return {"confirm_delay": float(x)}
    return {}


def _bound(case) -> float:
    ntg = sum(1 for op in case["ops"] if op[0] == "tg")
    # follow-ups: every forwarding callback may add one telegram per telegram, every responding device one per read
    ntg *= (1 + sum(1 for cb in case["cbs"] if cb.get("fwd"))) * (1 + sum(1 for d in case["devs"] if d.get("respond")))
    maxdelay = max([float(p[1]) for p in case["sends"] if p[0] in ("slow", "slowraise")] or [0.0])
    r = case["rate"]
    return (ntg + 1) * (3.0 + maxdelay + (1.0 / r if r else 0.0)) + 10.0


def execute(case):
    from xknx.devices import Device
    from xknx.remote_value import RemoteValueSwitch
    from xknx.telegram import IndividualAddress, Telegram, TelegramDirection
    from xknx.telegram.address import GroupAddress
    from xknx.telegram.apci import GroupValueRead

    state: dict = {"xknx": None, "nfollow": 0}

    def follow_up(dst, apci: str) -> None:
        """Queue a further outgoing telegram from inside telegram processing (callback / device)."""
        xknx = state["xknx"]
        src = IndividualAddress(FOLLOW_SRC + state["nfollow"])
        state["nfollow"] += 1
        xknx.telegrams.put_nowait(Telegram(destination_address=dst, payload=_mk_payload(apci), source_address=src, direction=TelegramDirection.OUTGOING))

    res: dict = {"puts": [], "cb_calls": [], "dev_calls": [], "stalled": [], "raised": [], "restart_marks": [], "sent": [], "after_join": None, "after_stop": None, "join_time": None, "stop_time": None}
    bound = _bound(case)
    saved_fmt = GroupAddress.address_format

    class Probe(Device):
        def __init__(self, xknx, name, addr, raises, respond=False):
            super().__init__(xknx, name)
            self.rv = RemoteValueSwitch(xknx, group_address=addr, sync_state=False, device_name=name)
            self.raises = raises
            self.respond = respond
            self.idx = int(name[1:])

        def _iter_remote_values(self):
            yield self.rv

        def process(self, telegram):
            res["dev_calls"].append((self.idx, _tid(telegram.source_address.raw)))
            if self.respond and isinstance(telegram.payload, GroupValueRead):
                # like an ExposeSensor / respond_to_read device: answer the read with an outgoing response
                follow_up(self.rv.group_address, "r1")
            if self.raises:
                raise _exc(self.raises)

    async def scenario(loop):
        from vk.xharness import XH

        h = await XH.create(loop, rate_limit=case["rate"])
        h.connect()
        xknx = h.xknx
        state["xknx"] = xknx
        plans = case["sends"]
        # queue order = order of put_nowait on xknx.telegrams (observed, includes follow-ups and the cEMI receive path)
        orig_put = xknx.telegrams.put_nowait

        def rec_put(item):
            if item is not None:
                d = item.destination_address
                res["puts"].append({"i": _tid(item.source_address.raw), "dir": "out" if item.direction is TelegramDirection.OUTGOING else "in", "dst": d.raw, "internal": isinstance(d.raw, str)})
            return orig_put(item)

        xknx.telegrams.put_nowait = rec_put  # type: ignore[method-assign]

        def behaviour(idx, cemi):
            return plan_entry(plans[idx]) if idx < len(plans) else {}

        h.stub.behaviour = behaviour

        for k, cb in enumerate(case["cbs"]):

            def make(k=k, cb=cb):
                def f(telegram):
                    i = _tid(telegram.source_address.raw)
                    res["cb_calls"].append((k, i))
                    if cb.get("fwd") and i < FOLLOW_ID:  # forward the history's telegrams only (no forwarding loops)
                        follow_up(_mk_addr(cb["fwd"]["dst"]), cb["fwd"]["apci"])
                    if cb.get("exc"):
                        raise _exc(cb["exc"])

                return f

            xknx.telegram_queue.register_telegram_received_cb(make(), match_for_outgoing=bool(cb.get("out")))
        for k, d in enumerate(case["devs"]):
            xknx.devices.async_add(Probe(xknx, f"p{k}", _mk_addr(d["addr"]), d.get("exc"), bool(d.get("respond"))))

        ntg = 0
        ok = True
        for op in case["ops"]:
            if op[0] == "tg":
                tg = op[1]
                src = IndividualAddress(BASE_SRC + ntg)
                ntg += 1
                t = Telegram(destination_address=_mk_addr(tg["dst"]), payload=_mk_payload(tg["apci"]), source_address=src)
                if tg["dir"] == "ind":
                    h.inject_ind(t, src=str(src))
                else:
                    t.direction = TelegramDirection.INCOMING if tg["dir"] == "in" else TelegramDirection.OUTGOING
                    xknx.telegrams.put_nowait(t)
            elif op[0] == "sleep":
                await asyncio.sleep(float(op[1]))
            elif op[0] == "restart":
                try:
                    await asyncio.wait_for(xknx.telegram_queue.stop(), bound)
                except TimeoutError:
                    res["stalled"].append("restart-stop")
                    ok = False
                    break
                except (asyncio.CancelledError, Exception) as e:  # noqa: BLE001 - stop() itself raised
                    res["raised"].append(("restart-stop", type(e).__name__, exc_site(e)))
                    ok = False
                    break
                res["restart_marks"].append(len(h.stub.sent))
                await xknx.telegram_queue.start()
        snap = lambda: (xknx.telegrams.qsize(), xknx.telegrams._unfinished_tasks, xknx.telegram_queue.outgoing_queue.qsize(), xknx.telegram_queue.outgoing_queue._unfinished_tasks, h.stub.inflight)  # noqa: E731
        if ok and case.get("final") == "xstop":
            # public XKNX.stop() while telegrams (and their follow-ups) are still pending, then wait for the queue
            t0 = loop.time()
            try:
                await asyncio.wait_for(xknx.stop(), bound)
                res["stop_time"] = loop.time() - t0
                res["after_stop"] = snap()
            except TimeoutError:
                res["stalled"].append("xknx-stop")
            except (asyncio.CancelledError, Exception) as e:  # noqa: BLE001
                res["raised"].append(("xknx-stop", type(e).__name__, exc_site(e)))
            try:
                await asyncio.wait_for(xknx.join(), bound)
                res["after_join"] = snap()
            except TimeoutError:
                res["stalled"].append("join-after-xknx-stop")
            except (asyncio.CancelledError, Exception) as e:  # noqa: BLE001
                res["raised"].append(("join-after-xknx-stop", type(e).__name__, exc_site(e)))
        elif ok:
            t0 = loop.time()
            try:
                await asyncio.wait_for(xknx.join(), bound)
                res["join_time"] = loop.time() - t0
                res["after_join"] = (xknx.telegrams.qsize(), xknx.telegrams._unfinished_tasks, xknx.telegram_queue.outgoing_queue.qsize(), xknx.telegram_queue.outgoing_queue._unfinished_tasks, h.stub.inflight)
            except TimeoutError:
                res["stalled"].append("join")
            except (asyncio.CancelledError, Exception) as e:  # noqa: BLE001
                res["raised"].append(("join", type(e).__name__, exc_site(e)))
            t0 = loop.time()
            try:
                await asyncio.wait_for(xknx.telegram_queue.stop(), bound)
                res["stop_time"] = loop.time() - t0
                res["after_stop"] = (xknx.telegrams.qsize(), xknx.telegrams._unfinished_tasks, xknx.telegram_queue.outgoing_queue.qsize(), xknx.telegram_queue.outgoing_queue._unfinished_tasks, h.stub.inflight)
            except TimeoutError:
                res["stalled"].append("stop")
            except (asyncio.CancelledError, Exception) as e:  # noqa: BLE001
                res["raised"].append(("stop", type(e).__name__, exc_site(e)))
        for rec in h.stub.sent:
            tg = rec["telegram"]
            res["sent"].append({"i": _tid(tg.source_address.raw) if tg is not None else None, "t": rec["t"], "t_done": rec["t_done"], "outcome": rec["outcome"], "dst": str(tg.destination_address) if tg is not None else None})
        res["max_inflight"] = h.stub.max_inflight
        xknx.started.clear()
        return None

    try:
        _, loop = run_case(scenario, max_iters=400_000)
    finally:
        GroupAddress.address_format = saved_fmt
    res["escaped"] = loop.escaped
    return res


def _send_ok(p) -> bool:
    return p[0] in ("ok", "slow") or (p[0] == "lateconfirm" and float(p[1]) < 3.0)


def judge(ctx, case, res) -> bool:
    """Report violations; returns True if the case was non-trivial."""
    # every telegram that was put on xknx.telegrams, in queue order: the history's own and the follow-ups
    tgs = {p_["i"]: {"dir": p_["dir"], "dst": p_["dst"]} for p_ in res["puts"]}
    restarted = any(op[0] == "restart" for op in case["ops"])
    tag = ":after-restart" if restarted else ""
    symptoms = [f"{s_} did not return within {_bound(case):.1f} virtual seconds" for s_ in res["stalled"]] + [f"{what}() raised {site}" for what, _t, site in res["raised"]]
    if symptoms:
        sends_so_far = [(s_["i"], s_["t"], s_["outcome"]) for s_ in res["sent"]]
        if restarted:
            # one root-cause bucket for "the restarted queue does not work", split by rate limiting on/off
            ctx.fail(f"C33:queue-dead-after-restart:{'rate-limited' if case['rate'] else 'no-rate-limit'}", case, "; ".join(symptoms) + f"; sends so far {sends_so_far}")
        else:
            for s_ in res["stalled"]:
                ctx.fail(f"C33:queue-stalled:{s_}", case, f"{s_} did not return within {_bound(case):.1f} virtual seconds; sends so far {sends_so_far}")
            for what, tname, site in res["raised"]:
                ctx.fail(f"C33:{what}-raised:{tname}", case, f"{what}() raised {site}; sends so far {sends_so_far}")
    for e in res["escaped"]:
        ctx.fail(f"C33:escaped:{type(e['exception']).__name__}{tag}", case, e["repr"] + " " + e["message"])
    internal = {p_["i"] for p_ in res["puts"] if p_["internal"]}
    expected = [p_["i"] for p_ in res["puts"] if p_["dir"] == "out" and not p_["internal"]]
    sent = [s["i"] for s in res["sent"]]
    stalled = bool(res["stalled"]) or bool(res["raised"])
    # (1) never to the interface: internal addresses (and nothing that was not an outgoing telegram)
    for i in sent:
        if i in internal:
            ctx.fail("C33:internal-reached-interface", case, f"telegram #{i} {tgs[i]} to an internal address was passed to send_cemi")
        elif i is None or i not in tgs or tgs[i]["dir"] != "out":
            ctx.fail("C33:sent-not-an-outgoing-telegram", case, f"send_cemi carried telegram #{i}, which is not a queued outgoing telegram")
    sent_g = [i for i in sent if i in set(expected)]
    cnt = Counter(sent_g)
    dup = [i for i, n in cnt.items() if n > 1]
    if dup:
        ctx.fail("C33:sent-more-than-once", case, f"telegrams {dup} were passed to send_cemi more than once: {sent}")
    missing = [i for i in expected if i not in cnt]
    if missing and not stalled:
        what = "follow-up" if all(i >= FOLLOW_ID for i in missing) else "queued"
        ctx.fail(f"C33:never-sent:{what}{tag}", case, f"outgoing telegrams {missing} ({what}; 1000.. = follow-ups queued by callbacks/devices) never reached the interface although join() and stop() returned; queue order {expected}; sent {sent}")
    # (2) order
    first = []
    for i in sent_g:
        if i not in first:
            first.append(i)
    if first != [i for i in expected if i in cnt]:
        ctx.fail("C33:order", case, f"interface order {first} != queue order {[i for i in expected if i in cnt]}")
    # (3) one at a time
    if res.get("max_inflight", 0) > 1:
        ctx.fail("C33:overlapping-sends", case, f"{res['max_inflight']} send_cemi calls in progress at once")
    for a, b in zip(res["sent"], res["sent"][1:]):
        if a["t_done"] is None or b["t"] < a["t_done"] - 1e-9:
            ctx.fail("C33:overlapping-sends", case, f"send of #{b['i']} started at {b['t']} before send of #{a['i']} finished ({a['t_done']})")
            break
    # (4) rate limit
    r = case["rate"]
    if r:
        for n, (a, b) in enumerate(zip(res["sent"], res["sent"][1:])):
            if n + 1 in res["restart_marks"]:
                continue  # first send of a restarted queue: spacing across stop()/start() is not claimed
            if b["t"] - a["t"] < 1.0 / r - TOL:
                ctx.fail("C33:rate-limit", case, f"rate limit {r}/s: sends of #{a['i']} and #{b['i']} started {b['t'] - a['t']:.6f} s apart (< {1.0 / r:.6f})")
                break
    # (5) internal telegrams are still processed by devices and callbacks; nothing is processed twice
    cbc = Counter(res["cb_calls"])
    dvc = Counter(res["dev_calls"])
    for (k, i), n in cbc.items():
        if n > 1:
            ctx.fail("C33:callback-called-twice", case, f"callback #{k} saw telegram #{i} {n} times")
    for (k, i), n in dvc.items():
        if n > 1:
            ctx.fail("C33:device-processed-twice", case, f"device #{k} processed telegram #{i} {n} times")
    hit_faults = False
    if not stalled:
        for i in sorted(internal):
            tg = tgs[i]
            devs = [k for k, d in enumerate(case["devs"]) if d["addr"] == tg["dst"]]
            dev_raises = any(case["devs"][k].get("exc") for k in devs)
            if dev_raises:
                hit_faults = True
                # statement demands only liveness here; measure what happens
                if tg["dir"] == "out" and any(cb.get("out") and cbc.get((k, i), 0) == 0 for k, cb in enumerate(case["cbs"])):
                    ctx.notes["callbacks_skipped_after_device_error"] = ctx.notes.get("callbacks_skipped_after_device_error", 0) + 1
                continue
            for k in devs:
                if dvc.get((k, i), 0) != 1:
                    ctx.fail(f"C33:internal-not-processed:device{tag}", case, f"internal telegram #{i} {tg}: device #{k} processed it {dvc.get((k, i), 0)} times")
            for k, cb in enumerate(case["cbs"]):
                want = 1 if (tg["dir"] != "out" or cb.get("out")) else 0
                if cbc.get((k, i), 0) != want:
                    ctx.fail(f"C33:internal-not-processed:callback{tag}", case, f"internal telegram #{i} {tg}: callback #{k} {cb} called {cbc.get((k, i), 0)} times, expected {want}")
    # (6) everything marked done
    for when in ("after_join", "after_stop"):
        st_ = res.get(when)
        if st_ is not None and any(st_):
            ctx.fail(f"C33:not-all-done:{when}{tag}", case, f"{when}: (telegrams.qsize, unfinished, outgoing_queue.qsize, unfinished, sends in progress) = {st_}")
    # non-trivial?
    faults = any(p[0] != "ok" for p in case["sends"][: len(expected)])
    for i, tg in tgs.items():
        if any(cb.get("exc") and cbc.get((k, i), 0) for k, cb in enumerate(case["cbs"])):
            hit_faults = True
        if any(d.get("exc") and dvc.get((k, i), 0) for k, d in enumerate(case["devs"])):
            hit_faults = True
    follow = any(i >= FOLLOW_ID for i in expected)
    if follow:
        ctx.notes["cases_with_follow_ups"] = ctx.notes.get("cases_with_follow_ups", 0) + 1
    return len(expected) >= 2 and (bool(r) or faults or hit_faults or follow)


def check_case(ctx, case) -> bool:
    try:
        res = execute(case)
    except (BudgetExceeded, Deadlock):
        ctx.notes["inconclusive"] = ctx.notes.get("inconclusive", 0) + 1
        return False
    except Exception as e:  # noqa: BLE001
        ctx.fail(f"C33:scenario-exc:{exc_site(e)}", case, repr(e))
        return False
    return judge(ctx, case, res)


# --------------------------------------------------------------------------- strategies
_I = st.integers


def _pick(draw, seq):
    return seq[draw(_I(0, len(seq) - 1))]


@st.composite
def cases(draw):
    rate = _pick(draw, RATES)
    pool = [draw(_I(1, 65535)) for _ in range(3)]
    names = ["i-a", "i-b"]

    def dst():
        k = draw(_I(0, 5))
        if k <= 3:
            return _pick(draw, pool)
        return _pick(draw, names)

    def fwd():
        if draw(_I(0, 3)):
            return None
        return {"dst": dst() if draw(_I(0, 2)) else 0x3000 + draw(_I(0, 3)), "apci": _pick(draw, ["w1", "w0", "rd"])}

    cbs = [{"out": bool(draw(_I(0, 1))), "exc": _pick(draw, [None, None, "ValueError", "conv", "RuntimeError"]), "fwd": fwd()} for _ in range(draw(_I(0, 3)))]
    devs = [{"addr": dst(), "exc": _pick(draw, [None, None, *DEV_EXC]), "respond": draw(_I(0, 2)) == 0} for _ in range(draw(_I(0, 3)))]
    ops = []
    n_out = 0
    for _ in range(draw(_I(1, 14))):
        k = draw(_I(0, 11))
        if k <= 7:
            d = dst()
            dirn = _pick(draw, ["out", "out", "out", "in", "ind"])
            if isinstance(d, str) and dirn == "ind":
                dirn = "in"
            ops.append(["tg", {"dir": dirn, "dst": d, "apci": _pick(draw, ["w0", "w1", "wa", "r1", "rd"])}])
            n_out += dirn == "out" and not isinstance(d, str)
        elif k <= 10:
            ops.append(["sleep", _pick(draw, [0.0, 0.001, 0.01, 0.05, 0.2, 1.0, 3.5])])
        elif draw(_I(0, 2)) == 0:
            ops.append(["restart"])
        else:
            ops.append(["sleep", 0.05])
    sends = []
    for _ in range(n_out):
        kind = _pick(draw, SEND_KINDS)
        if kind in ("slow", "slowraise"):
            x = _pick(draw, [0.02, 0.3, 1.0])
        elif kind == "lateconfirm":
            x = _pick(draw, [0.5, 2.9, 3.5])
        elif kind in ("unexpected", "comm"):
            x = draw(_I(0, 3))
        else:
            x = 0
        sends.append([kind, x])
    for _ in range(draw(_I(0, 4))):  # plan entries for sends of follow-up telegrams
        kind = _pick(draw, ["ok", "ok", "slow", "comm", "noconfirm"])
        sends.append([kind, 0.3 if kind == "slow" else 1])
    final = "xstop" if draw(_I(0, 2)) == 0 else "join"
    return {"rate": rate, "cbs": cbs, "devs": devs, "ops": ops, "sends": sends, "final": final}


def _labels(case):
    lab = [f"rate:{case['rate']}"]
    lab += sorted({f"send:{p[0]}" for p in case["sends"]})
    tgs = [op[1] for op in case["ops"] if op[0] == "tg"]
    if any(isinstance(t["dst"], str) for t in tgs):
        lab.append("tg:internal")
    if any(t["dir"] != "out" for t in tgs):
        lab.append("tg:incoming")
    if any(cb.get("exc") for cb in case["cbs"]):
        lab.append("raising-callback")
    if any(d.get("exc") for d in case["devs"]):
        lab.append("raising-device")
    if any(op[0] == "restart" for op in case["ops"]):
        lab.append("restart")
    if any(cb.get("fwd") for cb in case["cbs"]):
        lab.append("follow-up:forwarding-callback")
    if any(d.get("respond") for d in case["devs"]):
        lab.append("follow-up:responding-device")
    lab.append("final:" + case.get("final", "join"))
    return lab


def _hyp_oracle(ctx, case) -> None:
    nt = check_case(ctx, case)
    ntg = sum(1 for op in case["ops"] if op[0] == "tg")
    ctx.case(repr(case), nontrivial=nt, cls=_labels(case), sample=case if nt and ntg >= 5 else None)
    ctx.notes["telegrams"] = ctx.notes.get("telegrams", 0) + ntg


def _hyp_shard(ctx, n: int) -> None:
    hyp_search(ctx, cases(), _hyp_oracle, n)


def _tg(dirn, dst, apci="w1"):
    return ["tg", {"dir": dirn, "dst": dst, "apci": apci}]


FIXED = [
    # every send outcome once, rate limit 20, one raising callback and one raising device
    {
        "rate": 20,
        "cbs": [{"out": True, "exc": "ValueError"}, {"out": True, "exc": None}],
        "devs": [{"addr": 2563, "exc": "RuntimeError"}, {"addr": "i-a", "exc": None}],
        "ops": [_tg("out", 2563), _tg("out", 2564), _tg("out", "i-a"), _tg("in", 2563), _tg("out", 2565), _tg("out", 2566), ["sleep", 0.01], _tg("ind", 2564), _tg("out", 2567), _tg("out", 2568), _tg("out", 2569), _tg("out", 2570)],
        "sends": [["ok", 0], ["slow", 0.3], ["comm", 1], ["conv", 0], ["unexpected", 0], ["noconfirm", 0], ["lateconfirm", 3.5], ["slowraise", 1.0]],
    },
    # follow-ups while stopping through XKNX.stop(): a responding device answers a read, a callback forwards each telegram
    {
        "rate": 0,
        "cbs": [{"out": True, "exc": None, "fwd": {"dst": 12288, "apci": "w1"}}],
        "devs": [{"addr": 2563, "exc": None, "respond": True}],
        "ops": [_tg("in", 2563, "rd"), _tg("out", 2564), _tg("ind", 2563, "rd")],
        "sends": [],
        "final": "xstop",
    },
    # burst without rate limit
    {"rate": 0, "cbs": [], "devs": [], "ops": [_tg("out", 100 + i) for i in range(10)], "sends": []},
]


def run(ctx) -> None:
    for c in FIXED:
        nt = check_case(ctx, c)
        ctx.case(repr(c), nontrivial=nt, cls="fixed-example")
    parallel(ctx, _hyp_shard, [(ctx.n(400, 6000),)] * 16)


def replay(ctx, case) -> None:
    check_case(ctx, case)
