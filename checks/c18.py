"""C18 - secured group addresses never take plain data, and bad frames never crash.

(a) received plain / secured frames to keyed and unkeyed groups through the full receive
    path of a real XKNX (running telegram queue, a device and telegram callbacks on the
    addresses, key-issue callback): plain data to a keyed group reaches neither devices nor
    telegram callbacks, only the key-issue callbacks (once);
(b) outgoing telegrams to keyed groups always leave as secured APDUs;
(c) correctly authenticated frames whose decrypted content is malformed (every malformed
    inner APDU class: all 0..2-octet APDUs, short APDUs of every APCI code, random longer
    ones) never make the receive path raise.
"""

from __future__ import annotations

import itertools

from hypothesis import strategies as st

from vk.core import exc_site
from vk.engine import hyp_search, parallel

PROPERTY = "C18"
LEVEL = "exploration"
TECHNIQUE = "property-based testing: generated frame streams through the real receive/send path vs reference delivery predicate; exhaustive malformed inner APDUs of length 0..2"
RULE = (
    "streams of plain/secured frames to keyed and unkeyed groups with outgoing telegrams interleaved (Hypothesis), plus authenticated frames carrying every inner APDU of length 0..1 "
    "(quick; 0..2 thorough, exhaustive), every APCI code at lengths 2..4 and random longer ones; non-trivial = a plain frame to a keyed group, an outgoing telegram to a keyed group, "
    "or an authenticated frame whose inner APDU the decoder rejects; distinct by stream / inner APDU"
)
LEVEL_TEXT = "Generated streams against the delivery rule of the statement, and an exhaustive sweep of short malformed inner APDUs behind a valid MAC; any exception leaving handle_raw_cemi is a violation bucketed by raising site."
LEVEL_NOTE = "Secured frames are built with xknx's SecureData (conformance is C19's job); the running telegram queue is driven on the virtual-time loop."
ASSUMPTIONS = [
    "secured frames are built with xknx.secure.data_secure_asdu.SecureData (judged independently by C19)",
    "device processing is observed through a RawValue/Switch device's state and the device-updated callback",
]

KEYED = [0x0801, 0x0802]
UNKEYED = [0x0803, 0x0804]
KEYS = {0x0801: bytes(range(16)), 0x0802: bytes(range(100, 116))}
SENDER = 0x1101


# ---------------------------------------------------------------------------
# (c) malformed inner APDUs behind a valid MAC


def inner_case(ctx, rx, seq: int, inner: bytes, auth: bool) -> None:
    from xknx.exceptions import ConversionError
    from xknx.telegram.apci import APCI

    from vk.dsec import AUTH, ENC, secure_frame

    raw = secure_frame(KEYS[0x0801], SENDER, 0x0801, seq, inner, AUTH if auth else ENC)
    got, exc = rx.feed(raw)
    inp = {"inner_apdu": inner, "auth_only": auth}
    if exc is not None:
        # root cause key: the exception type that escaped the receive path (the decoder site varies per service)
        ctx.fail(f"C18:authenticated-malformed-raised:{type(exc).__name__}", inp, f"authenticated frame with inner APDU {inner.hex()}: {exc!r} at {exc_site(exc)}")
        return
    try:
        APCI.from_knx(inner)
        ok = True
    except ConversionError:
        ok = False
    except Exception:  # noqa: BLE001 - decoder totality is C04's subject
        ok = False
    if not ok and got:
        ctx.fail("C18:malformed-delivered", inp, f"inner APDU {inner.hex()} rejected by the decoder but a telegram was queued: {got[0]!r}")


def _inner_shard(ctx, job) -> None:
    from xknx.exceptions import ConversionError
    from xknx.telegram.apci import APCI

    from vk.dsec import Receiver, with_loop

    def body():
        rx = Receiver(KEYS, {SENDER: 0})
        seq = 0
        n = nt = 0
        kind, arg = job
        if kind == "len":
            inners = (bytes(t) for t in itertools.product(range(256), repeat=arg))
        elif kind == "len2":
            inners = (bytes((arg, b)) for b in range(256))
        else:  # every APCI code (10 bits) at lengths 2..4 with fills
            lo, hi = arg
            inners = (
                bytes(((code >> 8) & 0x03, code & 0xFF)) + fill * extra
                for code in range(lo, hi)
                for extra in (0, 1, 2)
                for fill in (b"\x00", b"\xff", b"\x5a")
                if extra or fill == b"\x00"
            )
        for inner in inners:
            seq += 1
            inner_case(ctx, rx, seq, inner, auth=bool(seq & 1))
            n += 1
            try:
                APCI.from_knx(inner)
            except ConversionError:
                nt += 1
            except Exception:  # noqa: BLE001
                nt += 1
            if n in (1, 7, 300):
                ctx.sample({"inner_apdu": inner.hex(), "auth_only": bool(seq & 1)})
        ctx.bulk(n, nt, f"inner-{kind}")
        rx.close()

    with_loop(body)


def _inner_random(ctx, h) -> None:
    from vk.dsec import Receiver, with_loop

    def body():
        rx = Receiver(KEYS, {SENDER: 0})
        for i, (inner, auth) in enumerate(h):
            inner_case(ctx, rx, i + 1, inner, auth)
        rx.close()

    with_loop(body)
    ctx.case(repr(h), nontrivial=True, cls="inner-random")


# ---------------------------------------------------------------------------
# (a)+(b) streams through the full path

_val = st.integers(0, 255)
_op = st.one_of(
    st.tuples(st.just("plain_in"), st.sampled_from(KEYED + UNKEYED), st.sampled_from(["write", "response", "read"]), _val),
    # plain frame from a device that is NOT in the security individual address table
    st.tuples(st.just("plain_in_unknown"), st.sampled_from(KEYED + UNKEYED), st.sampled_from(["write", "response", "read"]), _val, st.sampled_from([0x1309, 0x0001, 0xFFFE])),
    st.tuples(st.just("secure_in"), st.sampled_from(KEYED), st.sampled_from(["write", "response"]), _val, st.booleans()),
    st.tuples(st.just("secure_in_unkeyed"), st.sampled_from(UNKEYED), _val),
    st.tuples(st.just("out"), st.sampled_from(KEYED + UNKEYED), st.sampled_from(["write", "response", "read"]), _val),
    # outgoing group telegram with the other group transport service (T_Data_Tag_Group): the key is per destination address
    st.tuples(st.just("out_tag"), st.sampled_from(KEYED + UNKEYED), st.sampled_from(["write", "response", "read"]), _val),
    st.tuples(st.just("device_out"), st.sampled_from(KEYED + UNKEYED), _val),
)
streams = st.lists(_op, min_size=1, max_size=14).map(lambda ops: [list(o) for o in ops])


def _payload(kind: str, val: int):
    from xknx.dpt import DPTArray
    from xknx.telegram.apci import GroupValueRead, GroupValueResponse, GroupValueWrite

    if kind == "read":
        return GroupValueRead()
    return (GroupValueWrite if kind == "write" else GroupValueResponse)(DPTArray((val,)))


def run_stream(ctx, ops) -> set:
    from xknx.devices import RawValue
    from xknx.secure.data_secure import DataSecure
    from xknx.telegram import GroupAddress, IndividualAddress, Telegram
    from xknx.telegram.apci import SecureAPDU
    from xknx.telegram.tpci import TDataTagGroup

    from vk.dsec import AUTH, ENC, plain_frame, secure_frame
    from vk.vloop import BudgetExceeded, Deadlock, run_case
    from vk.xharness import XH

    classes: set = set()
    obs: dict = {}

    async def scenario(loop):
        h = await XH.create(loop)
        xknx = h.xknx
        xknx.cemi_handler.data_secure = DataSecure(
            group_key_table={GroupAddress(g): k for g, k in KEYS.items()},
            individual_address_table={IndividualAddress(SENDER): 0},
            last_sequence_number_sending=5000,
        )
        h.connect()
        cb_log: list = []
        issue_log: list = []
        dev_log: list = []
        xknx.telegram_queue.register_telegram_received_cb(lambda t: cb_log.append(t), match_for_outgoing=True)
        xknx.telegram_queue.register_data_secure_group_key_issue_cb(lambda t: issue_log.append(t))
        devs = {}
        for g in KEYED + UNKEYED:
            d = RawValue(xknx, f"d{g}", payload_length=1, group_address=GroupAddress(g))
            xknx.devices.async_add(d)
            devs[g] = d
        xknx.devices.register_device_updated_cb(lambda d: dev_log.append(d.name))
        seq = 0
        results = []
        for step, op in enumerate(ops):
            kind = op[0]
            n_cb, n_issue, n_dev, n_sent = len(cb_log), len(issue_log), len(dev_log), len(h.stub.sent)
            exc = None
            try:
                if kind == "plain_in":
                    h.inject_cemi(plain_frame(SENDER, op[1], _payload(op[2], op[3])))
                elif kind == "plain_in_unknown":
                    h.inject_cemi(plain_frame(op[4], op[1], _payload(op[2], op[3])))
                elif kind == "secure_in":
                    seq += 1
                    h.inject_cemi(secure_frame(KEYS[op[1]], SENDER, op[1], seq, _payload(op[2], op[3]).to_knx(), AUTH if op[4] else ENC))
                elif kind == "secure_in_unkeyed":
                    seq += 1
                    h.inject_cemi(secure_frame(KEYS[0x0801], SENDER, op[1], seq, _payload("write", op[2]).to_knx()))
                elif kind == "out":
                    xknx.telegrams.put_nowait(Telegram(destination_address=GroupAddress(op[1]), payload=_payload(op[2], op[3])))
                elif kind == "out_tag":
                    xknx.telegrams.put_nowait(Telegram(destination_address=GroupAddress(op[1]), payload=_payload(op[2], op[3]), tpci=TDataTagGroup()))
                else:
                    await devs[op[1]].set(op[2])
            except Exception as e:  # noqa: BLE001
                exc = e
            await h.settle(0.5)
            results.append(
                {
                    "cb": [t for t in cb_log[n_cb:]],
                    "issue": len(issue_log) - n_issue,
                    "dev": len(dev_log) - n_dev,
                    "sent": h.stub.sent[n_sent:],
                    "exc": exc,
                }
            )
        obs["results"] = results
        await h.close()

    try:
        _, loop = run_case(scenario, max_iters=300_000)
    except (BudgetExceeded, Deadlock):
        ctx.notes["inconclusive"] = ctx.notes.get("inconclusive", 0) + 1
        return classes
    for e in loop.escaped:
        ctx.fail(f"C18:escaped:{type(e['exception']).__name__}", ops, e["repr"])
    for step, (op, r) in enumerate(zip(ops, obs.get("results", []))):
        kind, ga = op[0], op[1]
        where = f"step {step} {op}"
        if r["exc"] is not None:
            ctx.fail(f"C18:receive-raised:{exc_site(r['exc'])}", ops, f"{where}: {r['exc']!r}")
            continue
        incoming_cb = [t for t in r["cb"] if t.direction.name == "INCOMING"]
        if kind in ("plain_in", "plain_in_unknown"):
            if ga in KEYS:
                classes.add("plain-to-keyed")
                if incoming_cb:
                    ctx.fail("C18:plain-to-keyed-reached-callback", ops, f"{where}: telegram callback got {incoming_cb[0]!r}")
                if r["dev"]:
                    ctx.fail("C18:plain-to-keyed-reached-device", ops, f"{where}: device updated")
                if r["issue"] != 1:
                    ctx.fail("C18:plain-to-keyed-key-issue-count", ops, f"{where}: key-issue callback called {r['issue']} times")
            else:
                classes.add("plain-to-unkeyed")
                if len(incoming_cb) != 1:
                    ctx.fail("C18:plain-to-unkeyed-not-delivered", ops, f"{where}: {len(incoming_cb)} callback calls")
                if r["issue"]:
                    ctx.fail("C18:plain-to-unkeyed-key-issue", ops, f"{where}: key-issue callback called")
        elif kind == "secure_in":
            classes.add("secure-to-keyed")
            if len(incoming_cb) != 1 or incoming_cb[0].data_secure is not True:
                ctx.fail("C18:secure-to-keyed-not-delivered", ops, f"{where}: callbacks {incoming_cb!r}")
        elif kind == "secure_in_unkeyed":
            classes.add("secure-to-unkeyed")
            if incoming_cb or r["dev"]:
                ctx.fail("C18:secure-to-unkeyed-delivered", ops, f"{where}: delivered {incoming_cb!r}")
        else:  # outgoing
            sent = r["sent"]
            if len(sent) != 1:
                ctx.fail("C18:outgoing-count", ops, f"{where}: {len(sent)} frames on the interface")
                continue
            payload = sent[0]["cemi"].data.payload
            if ga in KEYS:
                classes.add("outgoing-to-keyed" + (":tag-group" if kind == "out_tag" else ""))
                if not isinstance(payload, SecureAPDU):
                    ctx.fail("C18:outgoing-to-keyed-plain" + (":tag-group" if kind == "out_tag" else ""), ops, f"{where}: left the interface as {payload!r}")
            else:
                classes.add("outgoing-to-unkeyed")
                if isinstance(payload, SecureAPDU):
                    ctx.fail("C18:outgoing-to-unkeyed-secured", ops, f"{where}: secured without a key?")
    return classes


def _stream_oracle(ctx, ops) -> None:
    classes = run_stream(ctx, ops)
    nt = bool(classes & {"plain-to-keyed", "outgoing-to-keyed", "outgoing-to-keyed:tag-group"})
    ctx.case(repr(ops), nontrivial=nt, cls=sorted(classes) or ["none"], sample=ops if nt and len(ops) <= 4 else None)


def _stream_shard(ctx, n: int) -> None:
    hyp_search(ctx, streams, _stream_oracle, n)


def _random_shard(ctx, n: int) -> None:
    strat = st.lists(st.tuples(st.binary(min_size=0, max_size=40), st.booleans()), min_size=1, max_size=8)
    hyp_search(ctx, strat, _inner_random, n)


def run(ctx) -> None:
    jobs = [(("len", 0),), (("len", 1),)]
    jobs += [(("code", (lo, lo + 64)),) for lo in range(0, 1024, 64)]
    if ctx.quick:
        jobs += [(("len2", a),) for a in (0x00, 0x01, 0x02, 0x03, 0x80, 0xFF)]
    else:
        jobs += [(("len2", a),) for a in range(256)]
    parallel(ctx, _inner_shard, jobs)
    parallel(ctx, _random_shard, [(ctx.n(60, 1500),)] * 8)
    parallel(ctx, _stream_shard, [(ctx.n(60, 1500),)] * 16)


def replay(ctx, case) -> None:
    from vk.dsec import Receiver, with_loop

    if isinstance(case, dict) and "inner_apdu" in case:

        def body():
            rx = Receiver(KEYS, {SENDER: 0})
            inner_case(ctx, rx, 1, case["inner_apdu"], bool(case.get("auth_only")))
            rx.close()

        with_loop(body)
    else:
        run_stream(ctx, case)
