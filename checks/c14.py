"""C14 - received link frames reach exactly the right consumer, once; a send completes
only after a confirmation that arrived after hand-off.

(a) Routing matrix. Raw cEMI frames are built octet by octet from the KNX layout (not
with the codec under test) and fed to a real XKNX's `CEMIHandler.handle_raw_cemi`;
`xknx.management.process` is wrapped by a recorder (and still called), the telegram
queue is not started so that deliveries stay in `xknx.telegrams` and can be counted
and drained. The expected consumer is derived from the property statement:
L_Data.ind + T_Data_Group -> queue once; point-to-point / broadcast -> management once
iff broadcast or destination == own address; .con / .req / non-link-layer -> never a
telegram. The space {3 L_Data codes} x {group, individual} x {0, own, foreign address}
x {all 256 TPCI octets} and every other first octet is enumerated, richer frames
(flags, additional info, APDUs, malformed, sequences) are sampled with Hypothesis.

(b) Schedules. Concurrent `cemi_handler.send_telegram` tasks run against a stub
interface whose `send_cemi` takes a generated virtual delay / number of loop
iterations or raises; L_Data.con frames (and non-confirmation noise frames) are
injected at generated (virtual time, extra loop iterations) points - before the
hand-off, during it, after it, never. Every event gets a global order number so that
"arrived after the frame was handed to the interface" is decided exactly.
"""

from __future__ import annotations

import asyncio
import itertools

from hypothesis import strategies as st

from vk.core import HarnessError, exc_site
from vk.engine import hyp_search, parallel
from vk.vloop import BudgetExceeded, Deadlock, run_case

PROPERTY = "C14"
LEVEL = "exploration"
TECHNIQUE = "exhaustive routing matrix + Hypothesis frame sequences vs a consumer model written from the statement; Hypothesis send/confirmation schedules on a virtual-time loop with exact event ordering"
RULE = (
    "(a) frames = code x address type x destination {0, own, foreign} x all 256 TPCI octets (enumerated) and every non-L_Data first octet, "
    "plus sampled sequences of 1..8 frames with generated flags / hop count / extended frame format / additional info / APDU / own address / malformed length; "
    "non-trivial = L_Data frame whose TPCI is defined for its address type (the model decides a consumer); "
    "(b) schedule = 1..4 send_telegram tasks started at generated (time, extra iterations) with generated send_cemi duration or exception, and 0..6 injected frames "
    "(L_Data.con, negative L_Data.con, L_Data.ind, L_Data.req, M_PropRead.con, busmonitor) at generated points; "
    "non-trivial = a confirmation within +-2 loop iterations of a hand-off (entry or return of send_cemi), or >= 2 overlapping sends; distinct by case"
)
LEVEL_TEXT = "The routing decision of every L_Data frame class is enumerated exhaustively over message code, address type, destination class and TPCI octet against a model written from the statement; send/confirmation interleavings are sampled on a deterministic virtual-time loop and judged with an exact global event order."
LEVEL_NOTE = "Interleavings are sampled, not enumerated; single-threaded asyncio; the interface below the cEMI handler is a stub."
ASSUMPTIONS = [
    "Data Secure APDUs are excluded (C17/C18); no keyring is loaded",
    "frames with undefined TPCI codes for their address type, unsupported / malformed APDUs, or a non-zero extended frame format are only required to cause no exception and at most one delivery",
    "T_Data_Tag_Group (group or 0/0/0 destination) is not a T_Data_Group frame: it never reaches the telegram queue; at most one delivery overall and no exception",
    "'handed to the interface' = the call of the interface's send_cemi for that frame; send_cemi raises only CommunicationError / ConversionError",
    "a confirmation arriving exactly at the instant the confirmation timeout fires may go either way",
    "when sends overlap, any confirmation that arrived after a send's own hand-off may complete it (the statement speaks of 'a confirmation frame'); the completeness clause (positive confirmation in time => success) is asserted for a confirmation that arrives while the send is waiting (after its hand-off returned), and for one that arrives during its hand-off only if no other send is handed over before that hand-off returns",
]

OWN_DEFAULT = 0x11FA  # 1.1.250
FOREIGN = 0x1105
SRC = 0x1107

# APDUs that decode for each value of the two high APCI bits (low two bits of the TPCI octet)
APDU_BY_HIGH = {
    0: bytes([0x81]),  # GroupValueWrite(1)
    1: bytes([0x00]),  # IndividualAddressRead
    2: bytes([0x01, 0x00, 0x10]),  # MemoryRead(count=1, address=0x0010)
    3: bytes([0x00]),  # DeviceDescriptorRead(0)
}


# ---------------------------------------------------------------------------
# independent frame builder + consumer model
# ---------------------------------------------------------------------------


def build_ldata(code: int, group: bool, dst: int, tpdu: bytes, *, src: int = SRC, ctrl1: int = 0xBC, hop: int = 6, eff: int = 0, addinfo: bytes = b"", length: int | None = None) -> bytes:
    ctrl2 = (0x80 if group else 0) | ((hop & 7) << 4) | (eff & 0xF)
    lg = (len(tpdu) - 1) if length is None else length
    return bytes([code, len(addinfo)]) + addinfo + bytes([ctrl1, ctrl2]) + src.to_bytes(2, "big") + dst.to_bytes(2, "big") + bytes([lg & 0xFF]) + tpdu


def tpdu_for(octet: int, apdu_tail: bytes | None = None) -> bytes:
    """TPDU for a first octet: control TPDUs are one octet, data TPDUs carry an APDU."""
    if octet & 0x80:
        return bytes([octet])
    return bytes([octet]) + (APDU_BY_HIGH[octet & 3] if apdu_tail is None else apdu_tail)


def tpci_class(octet: int, group: bool, dst: int) -> str:
    """KNX 03_03_04 §2: TPDU kind from the TPCI octet and the address type. 'invalid' = not defined."""
    control, numbered, seq, low = octet & 0x80, octet & 0x40, (octet >> 2) & 0xF, octet & 3
    if group:
        if control or numbered:
            return "invalid"
        if seq == 0:
            return "broadcast" if dst == 0 else "group"
        if seq == 1:
            return "tag_group"
        return "invalid"
    if not control:
        if numbered:
            return "connected"
        return "individual" if seq == 0 else "invalid"
    if not numbered:
        if seq:
            return "invalid"
        return {0: "connect", 1: "disconnect"}.get(low, "invalid")
    return {2: "ack", 3: "nak"}.get(low, "invalid")


def expected(spec: dict, own: int) -> str:
    """'queue' | 'mgmt' | 'none' | 'lenient' (<= 1 delivery, no exception) | 'lenient-none-or-queue' ..."""
    if spec["kind"] != "ldata":
        return "none"
    code = spec["code"]
    if code in (0x2E, 0x11):
        return "none"  # confirmation and request frames never become telegrams
    if code != 0x29:
        return "none"
    if spec.get("malformed") or spec["eff"] != 0:
        return "lenient"
    k = tpci_class(spec["tpci"], spec["group"], spec["dst"])
    if k == "invalid":
        return "lenient"
    if k == "group":
        return "queue"
    if k == "tag_group":
        return "not-queue"  # not a T_Data_Group frame: never a telegram for the queue / devices; at most one delivery
    if k == "broadcast":
        return "mgmt"
    return "mgmt" if spec["dst"] == own else "none"


def spec_raw(spec: dict) -> bytes:
    if spec["kind"] == "raw":
        return bytes(spec["raw"])
    tail = spec.get("apdu")
    tpdu = tpdu_for(spec["tpci"], bytes(tail) if tail is not None else None)
    return build_ldata(
        spec["code"], spec["group"], spec["dst"], tpdu,
        src=spec.get("src", SRC), ctrl1=spec.get("ctrl1", 0xBC), hop=spec.get("hop", 6), eff=spec.get("eff", 0),
        addinfo=bytes(spec.get("addinfo", b"")), length=spec.get("length"),
    )


def selftest(ctx) -> None:
    from xknx.telegram.apci import APCI

    for high, tail in APDU_BY_HIGH.items():
        APCI.from_knx(bytes([high]) + tail)  # raises if the fixed APDUs were not decodable
    assert tpci_class(0x00, True, 0x0901) == "group" and tpci_class(0x00, True, 0) == "broadcast"
    assert tpci_class(0x04, True, 0x0901) == "tag_group" and tpci_class(0x08, True, 1) == "invalid"
    assert tpci_class(0x80, False, 1) == "connect" and tpci_class(0x81, False, 1) == "disconnect"
    assert tpci_class(0x82, False, 1) == "invalid" and tpci_class(0xC2, False, 1) == "ack" and tpci_class(0xD7, False, 1) == "nak"
    assert tpci_class(0x43, False, 1) == "connected" and tpci_class(0x03, False, 1) == "individual" and tpci_class(0xC0, False, 1) == "invalid"
    assert build_ldata(0x29, True, 0x0901, bytes([0x00, 0x81])) == bytes.fromhex("2900bce0110709010100" "81")
    own = OWN_DEFAULT
    s = {"kind": "ldata", "code": 0x29, "group": False, "dst": own, "tpci": 0x80, "eff": 0}
    assert expected(s, own) == "mgmt" and expected({**s, "dst": FOREIGN}, own) == "none" and expected({**s, "code": 0x2E}, own) == "none"
    assert expected({**s, "group": True, "dst": 0, "tpci": 0}, own) == "mgmt" and expected({**s, "group": True, "dst": 5, "tpci": 0}, own) == "queue"


# ---------------------------------------------------------------------------
# (a) routing matrix
# ---------------------------------------------------------------------------


def run_frames(specs: list[dict], own: int, yields: int = 0):
    """Feed the frames to a fresh XKNX. Returns per-frame observations and escaped exceptions."""
    from xknx import XKNX
    from xknx.telegram import IndividualAddress, TelegramDirection

    from vk.xharness import StubInterface

    obs: list[dict] = []

    async def scenario(loop):
        xknx = XKNX()
        stub = StubInterface(xknx, loop)
        xknx.knxip_interface._interface = stub
        xknx.current_address = IndividualAddress(own)
        calls: list = []
        orig = xknx.management.process

        def recorder(telegram):
            calls.append(telegram)
            return orig(telegram)

        # Management has __slots__: patch on a per-instance subclass
        mgmt = xknx.management
        mgmt.__class__ = type("RecordedManagement", (type(mgmt),), {"__slots__": (), "process": lambda self, telegram: recorder(telegram)})
        for spec in specs:
            raw = spec_raw(spec)
            q0, m0 = xknx.telegrams.qsize(), len(calls)
            o: dict = {"exc": None}
            try:
                xknx.cemi_handler.handle_raw_cemi(raw)
            except Exception as e:  # noqa: BLE001
                o["exc"] = (exc_site(e), repr(e))
            o["queued"] = xknx.telegrams.qsize() - q0
            o["mgmt"] = len(calls) - m0
            tgs = []
            while xknx.telegrams.qsize():
                tgs.append(xknx.telegrams.get_nowait())
                xknx.telegrams.task_done()
            tgs.extend(calls[m0:])
            o["ids"] = [
                (getattr(t.destination_address, "raw", None), type(t.destination_address).__name__, t.source_address.raw, t.direction is TelegramDirection.INCOMING)
                for t in tgs
            ]
            obs.append(o)
            for _ in range(yields):
                await asyncio.sleep(0)
        await asyncio.sleep(0.5)  # background sends started by Management (T_ACK / T_Disconnect) complete
        xknx.started.clear()
        return None

    _, loop = run_case(scenario, max_iters=200_000)
    return obs, loop.escaped


def judge_frames(ctx, specs: list[dict], own: int, obs: list[dict], escaped: list, inp) -> None:
    for i, (spec, o) in enumerate(zip(specs, obs)):
        exp = expected(spec, own)
        one = {"own": own, "frames": [spec]} if len(specs) > 1 else inp
        if o["exc"] is not None:
            ctx.fail(f"C14:route:exc:{o['exc'][0]}", one, f"frame {i} {spec_raw(spec).hex()}: {o['exc'][1]}")
            continue
        q, m = o["queued"], o["mgmt"]
        where = f"frame {i} {spec_raw(spec).hex()} (own address {own:#06x}): queued {q}, management {m}, model {exp}"
        if spec["kind"] == "ldata" and spec["code"] in (0x2E, 0x11) and (q or m):
            ctx.fail(f"C14:route:{'confirmation' if spec['code'] == 0x2E else 'request'}-became-telegram", one, where)
        elif spec["kind"] == "raw" and (q or m):
            ctx.fail("C14:route:non-link-frame-became-telegram", one, where)
        elif exp == "queue" and (q, m) != (1, 0):
            ctx.fail("C14:route:group-frame-" + ("not-queued" if q == 0 else "queued-twice" if q > 1 else "also-to-management"), one, where)
        elif exp == "mgmt" and (q, m) != (0, 1):
            kind = "broadcast" if spec["group"] else "own-p2p"
            ctx.fail(f"C14:route:{kind}-frame-" + ("not-to-management" if m == 0 else "to-management-twice" if m > 1 else "also-queued"), one, where)
        elif exp == "none" and (q or m):
            ctx.fail("C14:route:foreign-p2p-frame-delivered" if spec["kind"] == "ldata" and not spec["group"] else "C14:route:unexpected-delivery", one, where)
        elif exp == "not-queue" and q:
            ctx.fail("C14:route:tag-group-frame-queued", one, where)
        elif exp in ("lenient", "not-queue") and q + m > 1:
            ctx.fail("C14:route:delivered-more-than-once", one, where)
        elif exp in ("queue", "mgmt"):
            want_dst = (spec["dst"], "GroupAddress" if spec["group"] else "IndividualAddress", spec.get("src", SRC), True)
            if o["ids"] != [want_dst]:
                ctx.fail("C14:route:delivered-telegram-differs", one, where + f"; delivered (dst, type, src, incoming) {o['ids']}, frame says {want_dst}")
    for e in escaped:
        ctx.fail(f"C14:route:escaped:{type(e['exception']).__name__}", inp, e["repr"] + " " + e["message"])


def check_frames(ctx, specs: list[dict], own: int, yields: int = 0) -> None:
    inp = {"own": own, "frames": specs, "yields": yields}
    try:
        obs, escaped = run_frames(specs, own, yields)
    except (BudgetExceeded, Deadlock):
        ctx.notes["inconclusive"] = ctx.notes.get("inconclusive", 0) + 1
        return
    if len(obs) != len(specs):
        raise HarnessError("frame observations missing")
    judge_frames(ctx, specs, own, obs, escaped, inp)


def _nontrivial_spec(spec: dict) -> bool:
    return spec["kind"] == "ldata" and not spec.get("malformed") and spec["eff"] == 0 and tpci_class(spec["tpci"], spec["group"], spec["dst"]) != "invalid"


def _matrix_shard(ctx, code: int, group: bool) -> None:
    own = OWN_DEFAULT
    n = nt = 0
    for dst in (0, own, FOREIGN):
        batch = [{"kind": "ldata", "code": code, "group": group, "dst": dst, "tpci": octet, "eff": 0} for octet in range(256)]
        # one frame per XKNX would cost 256 loops; feed 32 per instance (frames are judged one by one)
        for k in range(0, 256, 32):
            check_frames(ctx, batch[k : k + 32], own)
        n += 256
        nt += sum(1 for s in batch if _nontrivial_spec(s))
        cls = {}
        for s in batch:
            e = expected(s, own)
            cls[e] = cls.get(e, 0) + 1
        ctx.sample({"matrix": f"code {code:#04x} {'group' if group else 'individual'} dst {dst:#06x}", "model": cls})
    ctx.bulk(n, nt, f"matrix-code{code:#04x}-{'grp' if group else 'ind'}")


def _other_codes_shard(ctx) -> None:
    """Every first octet that is not an L_Data code, with an empty, an L_Data-shaped and an M_Prop-shaped body."""
    own = OWN_DEFAULT
    ldata_body = build_ldata(0x29, True, 0x0901, tpdu_for(0))[1:]
    p2p_body = build_ldata(0x29, False, own, tpdu_for(0x80))[1:]
    mprop_body = bytes.fromhex("000b01341001") + b"\x01\x02"
    specs = []
    for first in range(256):
        if first in (0x29, 0x2E, 0x11):
            continue
        for body in (b"", ldata_body, p2p_body, mprop_body):
            specs.append({"kind": "raw", "raw": bytes([first]) + body})
    specs.append({"kind": "raw", "raw": b""})
    for k in range(0, len(specs), 64):
        check_frames(ctx, specs[k : k + 64], own)
    ctx.bulk(len(specs), 0, "matrix-other-codes")
    ctx.sample({"matrix": "non-L_Data first octets x 4 bodies", "frames": len(specs)})


_addr = st.sampled_from([0, OWN_DEFAULT, FOREIGN, 0x0901, 0xFFFF, 1]) | st.integers(0, 0xFFFF)
_own = st.sampled_from([OWN_DEFAULT, OWN_DEFAULT, 0xFFFF, 0x0901, 0])
_tpci_octet = st.sampled_from([0x00, 0x00, 0x01, 0x02, 0x03, 0x04, 0x40, 0x43, 0x7E, 0x80, 0x81, 0xC2, 0xC3, 0xD6, 0x82, 0xC0]) | st.integers(0, 255)
_apdu_tail = st.none() | st.sampled_from([bytes([0x81]), bytes([0x00]), bytes([0x80, 0x17]), bytes([0x80]) + bytes(range(14)), bytes([0x40, 0x01, 0x02]), bytes([0xD5, 0x00, 0x0B, 0x10, 0x01]), bytes([0xFF]), b""]) | st.binary(max_size=6)


_KNOWN_GOOD = ((0, bytes([0x81])), (0, bytes([0x00])), (0, bytes([0x80, 0x17])), (0, bytes([0x80]) + bytes(range(14))), (0, bytes([0x40, 0x01, 0x02])), (3, bytes([0xD5, 0x00, 0x0B, 0x10, 0x01])), (1, bytes([0x00])), (3, bytes([0x00])))
# GroupValueWrite / Read / Response, PropertyValueRead, IndividualAddressRead, DeviceDescriptorRead
_GROUP_OCTETS = st.sampled_from([0x00, 0x00, 0x00, 0x04])
_IND_OCTETS = st.sampled_from([0x00, 0x01, 0x03, 0x43, 0x7F, 0x80, 0x81, 0xC2, 0xFE, 0xC3, 0xD7]) | st.integers(0x40, 0x7F)


@st.composite
def frame_specs(draw):
    which = draw(st.integers(0, 11))
    if which == 0:
        first = draw(st.sampled_from([0x2B, 0x10, 0x2D, 0x2F, 0xFB, 0xF5, 0xF7, 0xFC, 0xF6, 0xF0, 0xF1, 0x13, 0x25]) | st.integers(0, 255).filter(lambda c: c not in (0x29, 0x2E, 0x11)))
        body = draw(st.sampled_from([b"", bytes.fromhex("000b01341001") + b"\x07", build_ldata(0x29, True, 0x0901, tpdu_for(0))[1:]]) | st.binary(max_size=12))
        return {"kind": "raw", "raw": bytes([first]) + body}
    clean = which >= 5  # a frame every field of which is defined: the model decides its consumer
    code = draw(st.sampled_from([0x29, 0x29, 0x29, 0x29, 0x2E, 0x11]))
    group = draw(st.booleans())
    octet = draw((_GROUP_OCTETS if group else _IND_OCTETS) if clean else _tpci_octet)
    spec = {"kind": "ldata", "code": code, "group": group, "dst": draw(_addr), "tpci": octet, "src": draw(st.sampled_from([SRC, 0, 0xFFFF]) | st.integers(0, 0xFFFF))}
    spec["ctrl1"] = draw(st.sampled_from([0xBC, 0xB0, 0x94, 0x3C]) | st.integers(0, 255))
    spec["hop"] = draw(st.integers(0, 7))
    spec["eff"] = 0 if clean else draw(st.sampled_from([0, 0, 0, 4, 7, 1, 15]))
    spec["addinfo"] = draw(st.sampled_from([b"", b"", b"", bytes([0x03, 0x02, 0x11, 0x22])]) | st.binary(max_size=8))
    malformed = False
    if not octet & 0x80:
        if clean:
            good = [t for h, t in _KNOWN_GOOD if h == octet & 3]
            if good and draw(st.booleans()):
                spec["apdu"] = draw(st.sampled_from(good))
        else:
            tail = draw(_apdu_tail)
            if tail is not None:
                spec["apdu"] = tail
                malformed = (octet & 3, tail) not in _KNOWN_GOOD  # not known to decode: delivery cannot be demanded
    if not clean and draw(st.integers(0, 5)) == 0:
        spec["length"] = draw(st.integers(0, 255))
        malformed = True
    if malformed:
        spec["malformed"] = True
    return spec


_sequences = st.tuples(_own, st.lists(frame_specs(), min_size=1, max_size=8), st.integers(0, 2))

def _seq_oracle(ctx, x) -> None:
    own, specs, yields = x
    check_frames(ctx, specs, own, yields)
    cls = set()
    for s in specs:
        e = expected(s, own)
        cls.add("expect-" + e)
        if s["kind"] == "ldata":
            cls.add("code-%#04x" % s["code"])
    ctx.case(
        (own, yields, tuple(spec_raw(s) for s in specs)),
        nontrivial=any(_nontrivial_spec(s) for s in specs),
        cls=sorted(cls),
        sample={"own": own, "frames": [spec_raw(s).hex() for s in specs], "model": [expected(s, own) for s in specs]} if len(specs) >= 5 else None,
    )


def _seq_shard(ctx, n: int) -> None:
    hyp_search(ctx, _sequences, _seq_oracle, n, seed_salt=1)


# ---------------------------------------------------------------------------
# (b) send / confirmation schedules
# ---------------------------------------------------------------------------

TIMEOUT = 3.0
EPS = 1e-6


def make_telegram(i: int, kind: str):
    from xknx.dpt import DPTArray
    from xknx.telegram import GroupAddress, IndividualAddress, Telegram
    from xknx.telegram.apci import GroupValueWrite
    from xknx.telegram.tpci import TConnect

    if kind == "ind":
        return Telegram(destination_address=IndividualAddress(0x1200 + i), tpci=TConnect())
    return Telegram(destination_address=GroupAddress(0x0A00 + i), payload=GroupValueWrite(DPTArray((0xB0, i))))


def run_schedule(case: dict):
    from xknx import XKNX
    from xknx.cemi import CEMIFrame, CEMILData, CEMIMessageCode
    from xknx.exceptions import CommunicationError, ConfirmationError, ConversionError
    from xknx.telegram import IndividualAddress

    order = itertools.count(1)
    sends = case["sends"]
    rec: list[dict] = [{"entry": None, "ret": None, "done": None} for _ in sends]
    injected: list[dict] = []
    out: dict = {}

    async def scenario(loop):
        xknx = XKNX()
        own = IndividualAddress(OWN_DEFAULT)
        xknx.current_address = own
        mgmt_calls: list = []
        mgmt = xknx.management
        mgmt.__class__ = type("RecordedManagement", (type(mgmt),), {"__slots__": (), "process": lambda self, telegram: mgmt_calls.append(telegram)})
        telegrams = [make_telegram(i, s.get("dst", "group")) for i, s in enumerate(sends)]
        raws = [CEMIFrame(code=CEMIMessageCode.L_DATA_REQ, data=CEMILData.init_from_telegram(t, src_addr=own)).to_knx() for t in telegrams]
        by_raw = {r: i for i, r in enumerate(raws)}

        def stamp() -> dict:
            return {"order": next(order), "tick": loop.tick, "t": loop.time()}

        class Stub:
            async def connect(self) -> None:
                return None

            async def disconnect(self) -> None:
                return None

            async def send_cemi(self, cemi) -> None:
                i = by_raw.get(cemi.to_knx())
                if i is None or rec[i]["entry"] is not None:
                    raise HarnessError("unexpected frame at the stub interface")
                rec[i]["entry"] = stamp()
                s = sends[i]
                try:
                    if s.get("delay"):
                        await asyncio.sleep(s["delay"])
                    for _ in range(s.get("yields", 0)):
                        await asyncio.sleep(0)
                    if s.get("exc") == "comm":
                        raise CommunicationError("scripted")
                    if s.get("exc") == "conv":
                        raise ConversionError("scripted")
                finally:
                    rec[i]["ret"] = {**stamp(), "raised": s.get("exc")}

        xknx.knxip_interface._interface = Stub()

        async def do_send(i: int) -> None:
            try:
                await xknx.cemi_handler.send_telegram(telegrams[i])
                res = ("ok",)
            except ConfirmationError as e:
                res = ("confirmation-error", repr(e)[:80])
            except CommunicationError as e:
                res = ("comm", repr(e)[:80])
            except ConversionError as e:
                res = ("conv", repr(e)[:80])
            except HarnessError:
                raise
            except Exception as e:  # noqa: BLE001
                res = ("exc", exc_site(e), repr(e)[:200])
            rec[i]["done"] = {**stamp(), "res": res}

        tasks: list = []

        def frame_for(ev: dict) -> bytes:
            base = raws[ev.get("of", 0) % len(raws)]
            k = ev["kind"]
            if k == "con":
                return bytes([0x2E]) + base[1:]
            if k == "con_err":  # negative confirmation: confirm flag (ctrl1 bit 0) set
                return bytes([0x2E, base[1], base[2] | 0x01]) + base[3:]
            if k == "ind":
                return build_ldata(0x29, True, 0x0B00 + ev.get("of", 0), tpdu_for(0))
            if k == "req":
                return bytes([0x11]) + base[1:]
            if k == "mprop":
                return bytes.fromhex("fb000b0134100101")
            if k == "busmon":
                return bytes([0x2B]) + base[1:]
            raise HarnessError(f"unknown event kind {k}")

        def fire(what, k: int) -> None:
            if k > 0:
                loop.call_soon(fire, what, k - 1)
                return
            if what[0] == "send":
                tasks.append(asyncio.ensure_future(do_send(what[1])))
            else:
                ev = what[1]
                raw = frame_for(ev)
                e = {**stamp(), "kind": ev["kind"], "of": ev.get("of", 0) % len(raws), "exc": None}
                try:
                    xknx.cemi_handler.handle_raw_cemi(raw)
                except Exception as ex:  # noqa: BLE001
                    e["exc"] = (exc_site(ex), repr(ex)[:200])
                injected.append(e)

        horizon = 0.0
        for i, s in enumerate(sends):
            loop.call_later(s["at"][0], fire, ("send", i), s["at"][1])
            horizon = max(horizon, s["at"][0] + s.get("delay", 0.0) + TIMEOUT)
        for ev in case["events"]:
            loop.call_later(ev["at"][0], fire, ("ev", ev), ev["at"][1])
            horizon = max(horizon, ev["at"][0])
        await asyncio.sleep(horizon + 1.0)
        pending = [t for t in tasks if not t.done()]
        out["pending"] = len(pending) + (len(sends) - len(tasks))
        for t in tasks:
            if t.done() and not t.cancelled() and t.exception() is not None:
                raise t.exception()
        cm = xknx.connection_manager
        out["counters"] = (cm.cemi_count_outgoing, cm.cemi_count_outgoing_error)
        out["queued"] = xknx.telegrams.qsize()
        out["mgmt"] = len(mgmt_calls)
        xknx.started.clear()
        return None

    _, loop = run_case(scenario, max_iters=200_000)
    return rec, injected, out, loop.escaped


def judge_schedule(ctx, case: dict, rec, injected, out, escaped) -> dict:
    inp = case
    sends = case["sends"]
    cons = [e for e in injected if e["kind"] in ("con", "con_err")]
    facts = {"near": False, "overlap": False, "foreign_confirmation": 0, "lost_under_overlap": 0}
    for e in escaped:
        ctx.fail(f"C14:send:escaped:{type(e['exception']).__name__}", inp, e["repr"] + " " + e["message"])
    for e in injected:
        if e["exc"] is not None:
            ctx.fail(f"C14:route:exc:{e['exc'][0]}", inp, f"injected {e['kind']} frame: {e['exc'][1]}")
    if out["pending"]:
        ctx.fail("C14:send:never-completed", inp, f"{out['pending']} send_telegram calls neither returned nor raised within hand-off + 3 s + 1 s")
        return facts
    n_ok = n_err = 0
    for i, r in enumerate(rec):
        entry, ret, done = r["entry"], r["ret"], r["done"]
        if entry is None or ret is None or done is None:
            raise HarnessError(f"send {i} not recorded: {r}")
        res = done["res"]
        others = [q for j, q in enumerate(rec) if j != i and q["entry"] is not None]
        disturbed = any(entry["order"] < q["entry"]["order"] < done["order"] for q in others)
        if any(q["entry"]["order"] < done["order"] and entry["order"] < q["done"]["order"] for q in others):
            facts["overlap"] = True
        if any(abs(c["tick"] - h["tick"]) <= 2 for c in cons for h in (entry, ret)):
            facts["near"] = True
        after = [c for c in cons if c["order"] > entry["order"]]
        if res[0] == "ok":
            n_ok += 1
            if ret["raised"]:
                ctx.fail("C14:send:success-although-interface-raised", inp, f"send {i}: send_cemi raised {ret['raised']} but send_telegram returned normally")
            if after and not any(c["of"] == i and c["order"] < done["order"] for c in after):
                facts["foreign_confirmation"] += 1
            if not any(c["order"] < done["order"] for c in after):
                stale = [c for c in cons if c["order"] < entry["order"]]
                ctx.fail(
                    "C14:send:completed-without-confirmation-after-handoff",
                    inp,
                    f"send {i} handed over at order {entry['order']} (tick {entry['tick']}, t={entry['t']}), returned normally at order {done['order']} (t={done['t']}); "
                    f"confirmations arrived at orders {[c['order'] for c in cons]} ({len(stale)} before the hand-off)",
                )
            continue
        n_err += 1
        if res[0] == "exc":
            ctx.fail(f"C14:send:undeclared-exception:{res[1]}", inp, f"send {i}: {res[2]}")
            continue
        if ret["raised"]:
            if res[0] != ret["raised"]:
                ctx.fail("C14:send:interface-error-not-propagated", inp, f"send {i}: send_cemi raised {ret['raised']}, send_telegram ended with {res}")
            continue
        if res[0] != "confirmation-error":
            ctx.fail("C14:send:failed-with-other-than-confirmation-error", inp, f"send {i}: {res}")
            continue
        if done["t"] > ret["t"] + TIMEOUT + EPS:
            ctx.fail("C14:send:confirmation-error-late", inp, f"send {i}: hand-off returned at {ret['t']}, ConfirmationError at {done['t']}")
        # completeness, within what one shared confirmation event guarantees also for overlapping sends:
        # (1) a positive confirmation that arrives while this send is already waiting (after its hand-off returned,
        #     before its timeout) completes it, whatever other sends were handed over before or after;
        # (2) one that arrives during the hand-off completes it unless another send was handed over between
        #     the confirmation and the return of this hand-off (that case is only counted).
        in_time = [c for c in after if c["kind"] == "con" and c["t"] < ret["t"] + TIMEOUT - EPS]
        waiting = [c for c in in_time if c["order"] > ret["order"]]
        during = [c for c in in_time if c["order"] < ret["order"] and not any(c["order"] < q["entry"]["order"] < ret["order"] for q in others)]
        if waiting:
            c = waiting[0]
            started = [j for j, q in enumerate(rec) if j != i and q["entry"] is not None and ret["order"] < q["entry"]["order"] < c["order"]]
            ctx.fail(
                "C14:send:waiting-send-not-completed-by-confirmation" if started else "C14:send:confirmation-lost",
                inp,
                f"send {i} handed over at order {entry['order']} t={entry['t']}, hand-off returned at order {ret['order']} t={ret['t']}"
                + (f"; send(s) {started} handed over meanwhile" if started else "")
                + f"; positive L_Data.con arrived at order {c['order']} t={c['t']} while send {i} was waiting, but it failed with ConfirmationError at t={done['t']}",
            )
        elif during:
            ctx.fail(
                "C14:send:confirmation-lost",
                inp,
                f"send {i} handed over at order {entry['order']} t={entry['t']}, hand-off returned at order {ret['order']} t={ret['t']}; positive L_Data.con arrived during the hand-off "
                f"at order {during[0]['order']} t={during[0]['t']} (no other hand-off before the return) but the send failed with ConfirmationError at t={done['t']}",
            )
        elif in_time:
            facts["lost_under_overlap"] += 1
    if out["counters"] != (n_ok, n_err):
        ctx.fail("C14:send:counters", inp, f"cemi_count_outgoing / _error = {out['counters']}, outcomes ok / failed = {(n_ok, n_err)}")
    n_ind = sum(1 for e in injected if e["kind"] == "ind")
    if out["queued"] != n_ind or out["mgmt"]:
        ctx.fail("C14:route:during-sends", inp, f"{n_ind} group L_Data.ind frames injected among {len(injected)} frames; queued {out['queued']}, management calls {out['mgmt']}")
    return facts


def check_schedule(ctx, case: dict) -> dict | None:
    try:
        rec, injected, out, escaped = run_schedule(case)
    except (BudgetExceeded, Deadlock):
        ctx.notes["inconclusive"] = ctx.notes.get("inconclusive", 0) + 1
        return None
    return judge_schedule(ctx, case, rec, injected, out, escaped)


_T = st.sampled_from([0.0, 0.0, 0.5, 1.0, 2.5, 3.0, 3.5, 4.0, 6.0])
_K = st.integers(0, 5)
_at = st.tuples(_T, _K).map(list)


@st.composite
def schedules(draw):
    n = draw(st.integers(1, 4))
    sends = []
    for _ in range(n):
        s = {"at": draw(_at), "delay": draw(st.sampled_from([0.0, 0.0, 0.5, 1.0, 3.0])), "yields": draw(st.integers(0, 4))}
        e = draw(st.sampled_from([None, None, None, None, None, "comm", "conv"]))
        if e:
            s["exc"] = e
        if draw(st.integers(0, 3)) == 0:
            s["dst"] = "ind"
        sends.append(s)
    events = []
    for _ in range(draw(st.integers(0, 6))):
        kind = draw(st.sampled_from(["con", "con", "con", "con", "con_err", "ind", "req", "mprop", "busmon"]))
        events.append({"at": draw(_at), "kind": kind, "of": draw(st.integers(0, n - 1))})
    return {"sends": sends, "events": events}


def _sched_oracle(ctx, case) -> None:
    facts = check_schedule(ctx, case)
    if facts is None:
        return
    for k in ("foreign_confirmation", "lost_under_overlap"):
        if facts[k]:
            ctx.notes[k] = ctx.notes.get(k, 0) + facts[k]
    cls = ["sends=%d" % len(case["sends"])]
    if facts["near"]:
        cls.append("confirmation-within-2-ticks-of-handoff")
    if facts["overlap"]:
        cls.append("overlapping-sends")
    if any(s.get("exc") for s in case["sends"]):
        cls.append("interface-raises")
    if not any(e["kind"].startswith("con") for e in case["events"]):
        cls.append("no-confirmation")
    ctx.case(
        repr(case),
        nontrivial=facts["near"] or facts["overlap"],
        cls=cls,
        sample=case if facts["near"] and facts["overlap"] else None,
    )


def _sched_shard(ctx, n: int) -> None:
    hyp_search(ctx, schedules(), _sched_oracle, n, seed_salt=2)


def _sched_enum_shard(ctx, delay: float, yields: int) -> None:
    """One send, one confirmation: every (time, extra iterations) placement around the hand-off - enumerated."""
    n = nt = 0
    for st_k in (0, 2):
        for t in (0.0, 0.5, 1.0, 2.5, 3.0, 3.5, 4.0, 6.0):
            for k in range(0, 8):
                for kind in ("con", "con_err", "ind"):
                    case = {"sends": [{"at": [0.5, st_k], "delay": delay, "yields": yields}], "events": [{"at": [t, k], "kind": kind, "of": 0}]}
                    f = check_schedule(ctx, case)
                    n += 1
                    if f and f["near"]:
                        nt += 1
    ctx.bulk(n, nt, "enum-1send-1frame")


# ---------------------------------------------------------------------------


def _sched_enum2_shard(ctx, delay_a: float, delay_b: float) -> None:
    """Two sends, one or two confirmations: B starts while A is still in send_cemi, while A waits, or after A - enumerated."""
    n = nt = 0
    for t_b, k_b in ((0.5, 0), (0.5, 1), (0.5, 3), (1.0, 0), (1.5, 0), (2.5, 2), (3.5, 0), (4.0, 0)):
        for t in (0.5, 1.0, 2.0, 2.5, 3.5, 4.5, 6.0):
            for k in (0, 2):
                for kinds in (("con",), ("con_err",), ("con", "con"), ("con_err", "con")):
                    events = [{"at": [t + 0.5 * j, k], "kind": kd, "of": j} for j, kd in enumerate(kinds)]
                    case = {"sends": [{"at": [0.5, 0], "delay": delay_a, "yields": 1}, {"at": [t_b, k_b], "delay": delay_b, "yields": 0}], "events": events}
                    f = check_schedule(ctx, case)
                    n += 1
                    if f and (f["near"] or f["overlap"]):
                        nt += 1
    ctx.bulk(n, nt, "enum-2sends")


def _shard(ctx, kind: str, *args) -> None:
    {"matrix": _matrix_shard, "other": _other_codes_shard, "enum": _sched_enum_shard, "enum2": _sched_enum2_shard, "seq": _seq_shard, "sched": _sched_shard}[kind](ctx, *args)


def run(ctx) -> None:
    jobs: list[tuple] = [("seq", ctx.n(100, 2500))] * 8 + [("sched", ctx.n(200, 5000))] * 16
    jobs += [("matrix", code, group) for code in (0x29, 0x2E, 0x11) for group in (True, False)]
    jobs += [("other",)]
    jobs += [("enum", d, y) for d in (0.0, 0.5, 3.0) for y in (0, 1, 3)]
    jobs += [("enum2", da, db) for da in (0.0, 0.5, 1.0) for db in (0.0, 0.5, 1.0)]
    parallel(ctx, _shard, jobs)
    ctx.exhaustive = False
    ctx.notes["matrix_exhaustive"] = "message code x address type x {0, own, foreign} x 256 TPCI octets; all non-L_Data first octets"


def replay(ctx, case) -> None:
    if "frames" in case:
        specs = []
        for s in case["frames"]:
            s = dict(s)
            for k in ("raw", "apdu", "addinfo"):
                if k in s and isinstance(s[k], list):
                    s[k] = bytes(s[k])
            specs.append(s)
        check_frames(ctx, specs, case.get("own", OWN_DEFAULT), case.get("yields", 0))
    else:
        check_schedule(ctx, case)
